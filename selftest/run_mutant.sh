#!/bin/bash
# usage: run_mutant.sh <patch> <property>...   -- applies a patch to /repo, runs the quick checks, reverts.
# Exit 0 iff every listed property check reported a VIOLATION (exit 1) for the mutant.
set -u
patch="$(realpath "$1")"; shift
if [ -n "$(git -C /repo status --porcelain)" ]; then echo "refusing: /repo has uncommitted changes"; exit 3; fi
git -C /repo apply "$patch" || { echo "patch does not apply: $patch"; exit 3; }
ok=0
for p in "$@"; do
  out=$(GOVC_EVIDENCE_DIR=$(mktemp -d /tmp/govc-ev.XXXXXX) timeout 600 /verif/bin/govc check --property "$p" 2>&1); rc=$?
  nviol=$(echo "$out" | grep -c '^VIOLATION')
  echo "  $p: exit=$rc violations=$nviol  $(echo "$out" | grep -m2 'failed obligation' | tr '\n' ' ' | cut -c1-220)"
  if [ $rc -ne 1 ] || [ $nviol -eq 0 ]; then ok=1; fi
done
git -C /repo checkout -- .
exit $ok

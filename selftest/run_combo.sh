#!/bin/bash
# Detection must survive refactoring: every must-fail change (own mutants and seeded changes) is applied ON TOP OF every
# behaviour-preserving refactoring of the same property (selftest/benign), in a scratch worktree of /repo's HEAD, and the
# property's check must still exit 1 with a VIOLATION line. Pairs whose patches do not apply together, or whose
# combination does not compile (check exit 2), are skipped (N/A). /repo is not touched.
# usage: run_combo.sh [jobs] [property...]
cd /verif
J=${1:-6}; shift
props="$@"
mkdir -p /tmp/corpus
one() { # benign mutant prop label
  b=$1; m=$2; prop=$3; label=$4
  wt=$(mktemp -d /tmp/corpus/c.XXXXXX); rmdir $wt
  git -C /repo worktree add -q --detach $wt HEAD 2>/dev/null || { echo "WORKTREE-FAILED $label"; return; }
  if ! git -C $wt apply "$b" 2>/dev/null || ! git -C $wt apply "$m" 2>/dev/null; then
    printf "%-8s %-4s %s\n" "N/A" "$prop" "$label (patches do not apply together)"; git -C /repo worktree remove --force $wt; return; fi
  ev=$(mktemp -d /tmp/corpus/ev.XXXXXX)
  out=$(GOVC_REPO=$wt GOVC_EVIDENCE_DIR=$ev GOVC_REPLAY_DIR=$ev/replays timeout 900 /verif/bin/govc check --property "$prop" 2>&1); rc=$?
  git -C /repo worktree remove --force $wt; rm -rf $ev
  nv=$(echo "$out" | grep -c '^VIOLATION')
  ob=$(echo "$out" | grep -m1 'failed obligation' | sed 's/^ *failed obligation: //' | cut -c1-100)
  status=DETECTED
  if [ $rc -eq 2 ]; then status="N/A"; ob="(combination does not load)"; elif [ $rc -ne 1 ] || [ $nv -eq 0 ]; then status=MISSED; fi
  printf "%-8s %-4s %-70s violations=%d  %s\n" "$status" "$prop" "$label" "$nv" "$ob"
}
export -f one
{
  for b in selftest/benign/C*.patch; do
    p=$(basename $b | cut -c1-3)
    if [ -n "$props" ] && ! echo " $props " | grep -q " $p "; then continue; fi
    for m in selftest/mutants/${p}_*.patch; do [ -f "$m" ] && echo "$(realpath $b) $(realpath $m) $p $(basename $b .patch)+mutants/$(basename $m)"; done
    for d in seeded/${p}_*/; do [ -f "$d/patch.diff" ] && echo "$(realpath $b) $(realpath $d/patch.diff) $p $(basename $b .patch)+$(basename $d)"; done
  done
} | xargs -P $J -L 1 bash -c 'one "$0" "$1" "$2" "$3"' | sort -k3,3
git -C /repo worktree prune

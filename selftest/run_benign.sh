#!/bin/bash
# The quiet corpus: behaviour-preserving refactorings (selftest/benign/<property>_*.patch, written by sub-agents that saw
# only the property text; each keeps the pinned suite green). Every one must leave its property's check at exit 0.
# Each patch is applied to its own scratch worktree of /repo's HEAD (GOVC_REPO); /repo is not touched.
cd /verif
J=${1:-5}
mkdir -p /tmp/corpus
one() {
  patch=$1; prop=$2; label=$3
  wt=$(mktemp -d /tmp/corpus/b.XXXXXX); rmdir $wt
  git -C /repo worktree add -q --detach $wt HEAD 2>/dev/null || { echo "WORKTREE-FAILED $label"; return; }
  if ! git -C $wt apply "$patch" 2>/dev/null; then echo "APPLY-FAILED $label"; git -C /repo worktree remove --force $wt; return; fi
  ev=$(mktemp -d /tmp/corpus/ev.XXXXXX)
  out=$(GOVC_REPO=$wt GOVC_EVIDENCE_DIR=$ev GOVC_REPLAY_DIR=$ev/replays timeout 900 /verif/bin/govc check --property "$prop" 2>&1); rc=$?
  git -C /repo worktree remove --force $wt; rm -rf $ev
  nv=$(echo "$out" | grep -c '^VIOLATION')
  ob=$(echo "$out" | grep -m1 'failed obligation' | sed 's/^ *failed obligation: //' | cut -c1-110)
  status=QUIET; if [ $rc -ne 0 ] || [ $nv -ne 0 ]; then status=ALARM; fi
  printf "%-6s %-4s %-40s exit=%d violations=%d  %s\n" "$status" "$prop" "$label" "$rc" "$nv" "$ob"
}
export -f one
for m in selftest/benign/C*.patch; do echo "$(realpath $m) $(basename $m | cut -c1-3) $(basename $m)"; done | xargs -P $J -L 1 bash -c 'one "$0" "$1" "$2"' | sort -k3,3
git -C /repo worktree prune

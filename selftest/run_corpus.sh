#!/bin/bash
# Runs every mutant patch in selftest/mutants (name prefix = property id) and every kept seeded change in
# /verif/seeded/*/patch.diff; prints one line per change: detected?, replay-confirmed violations, first failed obligation.
cd /verif
fail=0
run() { # patch prop
  if [ -n "$(git -C /repo status --porcelain)" ]; then echo "refusing: /repo dirty"; exit 3; fi
  git -C /repo apply "$1" || { echo "APPLY-FAILED $1"; fail=1; return; }
  out=$(GOVC_EVIDENCE_DIR=$(mktemp -d /tmp/govc-ev.XXXXXX) timeout 900 /verif/bin/govc check --property "$2" 2>&1); rc=$?
  git -C /repo checkout -- .
  nv=$(echo "$out" | grep -c '^VIOLATION'); nc=$(echo "$out" | grep '^VIOLATION' | grep -vc 'no-failing-input-found')
  ob=$(echo "$out" | grep -m1 'failed obligation' | sed 's/^ *failed obligation: //' | cut -c1-110)
  status=DETECTED; if [ $rc -ne 1 ] || [ $nv -eq 0 ]; then status=MISSED; fail=1; fi
  printf "%-8s %-4s %-44s violations=%d replayed=%d  %s\n" "$status" "$2" "$(basename $(dirname $1))/$(basename $1)" "$nv" "$nc" "$ob"
}
for m in selftest/mutants/C*.patch; do run "$(realpath $m)" "$(basename $m | cut -c1-3)"; done
for d in seeded/*/; do [ -f "$d/patch.diff" ] && run "$(realpath $d/patch.diff)" "$(python3 -c "import json;print(json.load(open('$d/meta.json'))['property'])")"; done
rm -rf /tmp/govc-ev.* 2>/dev/null
exit $fail

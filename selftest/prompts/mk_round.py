#!/usr/bin/env python3
"""Prepares a round of sub-agent tasks: one scratch worktree of /repo HEAD per property (contract files removed and the
removal committed inside the worktree, so that nothing of /verif is visible) and one prompt file per property.

usage: mk_round.py seeded|benign <dir under /tmp> <hints.json>
  hints.json: a list of strings; hint i%len is used for the i-th property (seeded: the "this time go for ..." sentence;
  benign: the numbered list of refactoring styles, with %d for the style to prefer)
The sub-agents are then started with: "Read the file <dir>/<id>.prompt.txt and follow its instructions exactly. Work only
inside <dir>/<id>. Do not read or touch /repo or /verif." Afterwards: seeded/keep.sh <id> <dir> agentN for must-fail
changes; copy SEEDED/patch.diff to selftest/benign/<id>_refactorN.patch for refactorings; remove the worktrees.
"""
import json, os, re, subprocess, sys, glob
kind, root, hints = sys.argv[1], sys.argv[2], json.load(open(sys.argv[3]))
here = os.path.dirname(os.path.abspath(__file__))
rel = json.load(open(os.path.join(here, 'relevant_files.json')))
props = {}
for l in open('/verif/properties.jsonl'):
    d = json.loads(l); props[d['id']] = d
tmpl = open(os.path.join(here, kind + '.tmpl')).read()
os.makedirs(root, exist_ok=True)
ids = [p for p in sorted(props) if p in rel]
for i, pid in enumerate(ids):
    d = props[pid]
    prop = 'PROPERTY %s: %s\n\nStatement: %s\n\nRelevant files: %s\n' % (pid, d['title'], d['statement'], rel[pid])
    avoid = []
    if kind == 'seeded':
        for sd in sorted(glob.glob('/verif/seeded/%s_agent*' % pid)):
            notes = open(sd + '/NOTES.md').read() if os.path.exists(sd + '/NOTES.md') else ''
            txt = re.sub(r'\s+', ' ', re.sub(r'^#.*$', '', notes, flags=re.M)).strip()
            files = sorted(set(re.findall(r'^\+\+\+ b/(\S+)', open(sd + '/patch.diff').read(), flags=re.M)))
            avoid.append('  - (%s) %s' % (', '.join(files), txt[:280]))
        for mp in sorted(glob.glob('/verif/selftest/mutants/%s_*.patch' % pid)):
            files = sorted(set(re.findall(r'^\+\+\+ b/(\S+)', open(mp).read(), flags=re.M)))
            avoid.append('  - (%s) %s' % (', '.join(files), os.path.basename(mp)[4:-6].replace('_', ' ')))
    wt = os.path.join(root, pid)
    hint = hints[i % len(hints)]
    if '%d' in hint:
        hint = hint % ((i % 4) + 1)
    t = tmpl.replace('__DIR__', wt).replace('__ROOT__', root).replace('__PROP__', prop).replace('__HINT__', hint).replace('__AVOID__', '\n'.join(avoid)).replace('__ID__', pid)
    open(os.path.join(root, pid + '.prompt.txt'), 'w').write(t)
    subprocess.check_call(['git', '-C', '/repo', 'worktree', 'add', '-q', '--detach', wt, 'HEAD'])
    for r, _, files in os.walk(wt):
        for f in files:
            if f == 'verif_contracts.go':
                os.remove(os.path.join(r, f))
    subprocess.check_call(['git', '-C', wt, 'add', '-A'])
    subprocess.check_call(['git', '-C', wt, 'commit', '-qm', 'scratch: checkout without contract files'])
print('prepared', len(ids), 'tasks in', root)

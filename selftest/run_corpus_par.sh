#!/bin/bash
# Parallel version of run_corpus.sh: every change is applied to its own scratch worktree of /repo (HEAD) under
# /tmp/corpus, checked there (GOVC_REPO; evidence and replays redirected), and the worktree removed. /repo is not touched.
# usage: run_corpus_par.sh [jobs] [substring]   -> prints the same lines as run_corpus.sh, sorted; only changes whose label
# contains the substring when one is given
cd /verif
J=${1:-5}
PAT=${2:-}
mkdir -p /tmp/corpus
one() { # patch prop label
  patch=$1; prop=$2; label=$3
  wt=$(mktemp -d /tmp/corpus/w.XXXXXX); rmdir $wt
  git -C /repo worktree add -q --detach $wt HEAD 2>/dev/null || { echo "WORKTREE-FAILED $label"; return; }
  if ! git -C $wt apply "$patch" 2>/dev/null; then echo "APPLY-FAILED $label"; git -C /repo worktree remove --force $wt; return; fi
  ev=$(mktemp -d /tmp/corpus/ev.XXXXXX)
  out=$(GOVC_REPO=$wt GOVC_EVIDENCE_DIR=$ev GOVC_REPLAY_DIR=$ev/replays timeout 900 /verif/bin/govc check --property "$prop" 2>&1); rc=$?
  git -C /repo worktree remove --force $wt; rm -rf $ev
  nv=$(echo "$out" | grep -c '^VIOLATION'); nc=$(echo "$out" | grep '^VIOLATION' | grep -vc 'no-failing-input-found')
  ob=$(echo "$out" | grep -m1 'failed obligation' | sed 's/^ *failed obligation: //' | cut -c1-110)
  status=DETECTED; if [ $rc -ne 1 ] || [ $nv -eq 0 ]; then status=MISSED; fi
  printf "%-8s %-4s %-44s violations=%d replayed=%d  %s\n" "$status" "$prop" "$label" "$nv" "$nc" "$ob"
}
export -f one
{
  for m in selftest/mutants/C*.patch; do echo "$(realpath $m) $(basename $m | cut -c1-3) mutants/$(basename $m)"; done
  for d in seeded/*/; do [ -f "$d/patch.diff" ] && echo "$(realpath $d/patch.diff) $(python3 -c "import json;print(json.load(open('$d/meta.json'))['property'])") $(basename $d)/patch.diff"; done
} | grep -- "$PAT" | xargs -P $J -L 1 bash -c 'one "$0" "$1" "$2"' | sort -k3,3
git -C /repo worktree prune

#!/bin/bash
# try_patch.sh <patch> <property> [extra govc args]: applies the patch to a scratch worktree of /repo HEAD (plus /repo's
# uncommitted contract edits), runs the property's check there with evidence redirected, prints the full output, cleans up.
patch=$(realpath $1); prop=$2; shift 2
mkdir -p /tmp/corpus
wt=$(mktemp -d /tmp/corpus/t.XXXXXX); rmdir $wt
git -C /repo worktree add -q --detach $wt HEAD || exit 3
git -C /repo diff | git -C $wt apply 2>/dev/null
git -C $wt apply "$patch" || { echo APPLY-FAILED; git -C /repo worktree remove --force $wt; exit 3; }
ev=$(mktemp -d /tmp/corpus/ev.XXXXXX)
GOVC_REPO=$wt GOVC_EVIDENCE_DIR=$ev GOVC_REPLAY_DIR=$ev/replays timeout 900 /verif/bin/govc check --property "$prop" "$@" 2>&1; rc=$?
git -C /repo worktree remove --force $wt; rm -rf $ev; git -C /repo worktree prune
echo "exit=$rc"

package main

import (
	"encoding/json"
	"fmt"
	"go/token"
	"os"
	"sort"

	"golang.org/x/tools/go/ssa"
)

// Invariants are written for "loop N" of a function. When a refactoring removes, adds or nests loops, the ordinals move
// and an invariant would be applied to a loop it was not written for. baseline/loops.json records, for every function
// whose contract has loop invariants, what each loop ranges over and which loop encloses it; when the function's loop
// structure differs from the recorded one, an invariant follows its loop by that description (the k-th loop over the
// same operand inside the loop its old parent was mapped to) and is dropped, with a note, when that loop is gone.

type loopRec struct {
	Ord    int    `json:"ord"`
	Desc   string `json:"desc"`
	Parent int    `json:"parent"`
}

const loopBaselinePath = "/verif/baseline/loops.json"

func loadLoopBaseline() map[string][]loopRec {
	m := map[string][]loopRec{}
	if data, err := os.ReadFile(loopBaselinePath); err == nil {
		json.Unmarshal(data, &m)
	}
	return m
}

// loopTable describes the loops of the frame's function (after analyse()).
func (fr *frame) loopTable() []loopRec {
	var lis []*loopInfo
	for _, li := range fr.loops {
		lis = append(lis, li)
	}
	sort.Slice(lis, func(i, j int) bool { return lis[i].ordinal < lis[j].ordinal })
	var out []loopRec
	for _, li := range lis {
		rec := loopRec{Ord: li.ordinal, Desc: fr.loopDesc(li)}
		// the innermost other loop whose body contains this header
		best := 0
		bestSize := 1 << 30
		for _, o := range lis {
			if o != li && o.body[li.header.Index] && len(o.body) < bestSize {
				best, bestSize = o.ordinal, len(o.body)
			}
		}
		rec.Parent = best
		out = append(out, rec)
	}
	return out
}

func (fr *frame) loopDesc(li *loopInfo) string {
	isRange := false
	for _, in := range li.header.Instrs {
		if p, ok := in.(*ssa.Phi); ok && p.Comment == "rangeindex" {
			isRange = true
		}
	}
	if !isRange {
		return "for"
	}
	for _, in := range li.header.Instrs {
		bo, ok := in.(*ssa.BinOp)
		if !ok || bo.Op != token.LSS {
			continue
		}
		switch y := bo.Y.(type) {
		case *ssa.Const:
			return "range array"
		case *ssa.Call:
			if b, isB := y.Call.Value.(*ssa.Builtin); isB && b.Name() == "len" && len(y.Call.Args) == 1 {
				return "range " + fr.describe(y.Call.Args[0], 0)
			}
		default:
			return "range " + fr.describe(bo.Y, 0)
		}
	}
	return "range"
}

// cmdLoops writes baseline/loops.json from the current tree.
func cmdLoops(args []string) {
	e := setup()
	out := map[string][]loopRec{}
	for key, ct := range e.contracts {
		if len(ct.Loops) == 0 {
			continue
		}
		fn := e.funcs[key]
		if fn == nil || len(fn.Blocks) == 0 {
			continue
		}
		u := e.newUnit(fn)
		fr := u.newFrame(fn, 0, false, "")
		fr.analyse()
		out[key] = fr.loopTable()
	}
	data, _ := json.MarshalIndent(out, "", " ")
	os.MkdirAll("/verif/baseline", 0o755)
	os.WriteFile(loopBaselinePath, append(data, '\n'), 0o644)
	fmt.Printf("recorded the loops of %d functions in %s\n", len(out), loopBaselinePath)
}

// loopMap maps recorded loop ordinals of the frame's function to its current loops (nil when nothing is recorded or
// nothing moved).
func (fr *frame) loopMap() map[int]int {
	if fr.loopMapDone {
		return fr.loopMapping
	}
	fr.loopMapDone = true
	e := fr.u.eng
	if e.loopBase == nil {
		e.loopBase = loadLoopBaseline()
	}
	name := funcName(fr.fn)
	if o, ok := e.renamedNew[name]; ok {
		name = o
	}
	old := e.loopBase[name]
	if old == nil {
		return nil
	}
	cur := fr.loopTable()
	// same number of loops with the same nesting: the ordinals still mean what they meant (what a loop ranges over may be
	// spelled differently after a rename)
	same := len(old) == len(cur)
	for i := 0; same && i < len(old); i++ {
		if old[i].Parent != cur[i].Parent {
			same = false
		}
	}
	if same {
		return nil
	}
	m := map[int]int{}
	used := map[int]bool{}
	for _, o := range old { // in ordinal order: parents before children
		parent := 0
		if o.Parent != 0 {
			p, ok := m[o.Parent]
			if !ok {
				continue // the enclosing loop is gone, and this one with it
			}
			parent = p
		}
		// how many earlier recorded loops share description and parent
		k := 0
		for _, o2 := range old {
			if o2.Ord < o.Ord && o2.Desc == o.Desc && o2.Parent == o.Parent {
				k++
			}
		}
		n := 0
		for _, c := range cur {
			if c.Desc == o.Desc && c.Parent == parent {
				if n == k {
					if !used[c.Ord] {
						m[o.Ord] = c.Ord
						used[c.Ord] = true
					}
					break
				}
				n++
			}
		}
	}
	fr.loopMapping = m
	if os.Getenv("GOVC_DEBUG_LOOPS") != "" {
		fmt.Fprintf(os.Stderr, "loop map of %s: %v\n  old: %+v\n  cur: %+v\n", name, m, old, cur)
	}
	fr.u.rebinds = append(fr.u.rebinds, fmt.Sprintf("%s: loops re-arranged; recorded loop -> current loop: %v (invariants of unmapped loops are dropped)", name, m))
	return m
}

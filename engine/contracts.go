package main

import (
	"bytes"
	"fmt"
	"go/ast"
	"go/parser"
	"go/printer"
	"go/token"
	"go/types"
	"os"
	"path/filepath"
	"regexp"
	"sort"
	"strings"

	"golang.org/x/tools/go/ssa"
)

type Clause struct {
	Kind     string // requires ensures invariant assert
	Label    string
	Tags     []string
	Text     string
	FnName   string
	Fn       *ssa.Function
	FnByPkg  map[string]*ssa.Function
	Loop     int
	VarNames []string
	VarTypes []string
	VarLocal []string // source-level local each VarName is bound to (defaults to the same name)
	Canary   bool
	Merged   bool // evaluate over the merged exit instead of per return site
	Records  bool // call-history fact: assumed at call sites, nothing to prove in the function itself
	AtReturn bool   // anchored at the n-th return statement (source order)
	AtStore  bool   // anchored at the n-th store to the field named Callee
	Derive   string // derive@call: ghost conclusion assumed once the premise (Text) is proved
	DeriveFnName string
	DeriveFn *ssa.Function
	// assert@call
	Callee  string
	Ordinal int
	Each    bool // `#each`: holds vacuously when the anchor does not occur
	ExtraParams []string
	File    string
	Line    int
}

type Contract struct {
	Key      string // funcName
	Pkg      string // package dir relative to repo ("" for root)
	RawKey   string
	Requires []*Clause
	Ensures  []*Clause
	Loops    []*Clause
	Asserts  []*Clause
	Wrap64   bool
	Atomic   bool // `atomic`: the operation takes each lock for at most one critical section per call
	Trusted  bool // body not verified (assumed contract on a /repo function) -- must be listed
	File     string
}

type ExternContract struct {
	Pkg      string // package directory whose overlay carries the spec functions ("" = root)
	Key      string
	Sig      string
	ClockReads, ClockAdvances bool
	Pure     bool
	ByValue  bool // pure function of the pointees of its pointer arguments (interior pointers allowed)
	Fresh    bool
	Modifies []string
	Requires []*Clause
	Ensures  []*Clause
	ArgTypes []types.Type
	SigFn    string
	File     string
	Imports  []importSpec
}

func (ec *ExternContract) modSet() ModSet {
	ms := ModSet{}
	if ec.ClockAdvances {
		ms["GH:clock"] = types.Typ[types.Int]
	}
	for _, m := range ec.Modifies {
		switch {
		case m == "*":
			ms["*"] = nil
		case strings.HasPrefix(m, "*arg"):
			ms["P:"+m[4:]] = nil
		case strings.HasPrefix(m, "elems arg"):
			ms["PE:"+m[9:]] = nil
		case strings.HasPrefix(m, "arg") && strings.Contains(m, "."):
			ms["P:"+m[3:strings.Index(m, ".")]] = nil
		}
	}
	return ms
}

type importSpec struct{ alias, path string }

type specFile struct {
	pkgDir  string // "" | xmlenc | samlsp | samlidp
	imports []importSpec
	goDecls []string
}

type Axiom struct {
	Name   string
	Params []string
	Text   string
	Pkg    string
	FnName string
	Fn     *ssa.Function
	File   string
}

type GlobalInv struct {
	Label   string
	Text    string
	Pkg     string
	Checked bool // globalinv: the variables are never assigned outside package initialisation (checked); configinv: assumed
	FnName  string
	Fn      *ssa.Function
	File    string
}

type ContractSet struct {
	guards    [][3]string // struct type (pkg.Name), field, lock field
	sharedCfg []string    // struct types (pkg.Name) whose objects concurrent requests read without a lock
	globalInvs []*GlobalInv
	typeInvs  [][2]string
	axioms    []*Axiom
	mapInvs   [][2]string
	contracts []*Contract
	externs   []*ExternContract
	files     map[string]*specFile // by pkgDir
	extImports []importSpec
	extDecls   []string
	extPkgImports map[string][]importSpec
	extPkgDecls   map[string][]string
	errs      []string
	notes     []string
	renames   []*rebinding
	dispatch  []*DispatchCheck
	curSigs   map[string]map[string]*funcSig // the functions of the current tree, per package directory
}

// DispatchCheck: a structural obligation decided by go/types on every run.
type DispatchCheck struct {
	Kind                    string // "" (promoted member), "receiver" (pointer receiver), "shape" (struct fields and tags)
	Pkg, Type, Method, From string
	Tags                    []string
	File                    string
}

func (dc *DispatchCheck) obName() string {
	switch dc.Kind {
	case "receiver":
		return fmt.Sprintf("%s.%s#receiver:%s", pkgShort(dc.Pkg), dc.Type, dc.Method)
	case "shape":
		return fmt.Sprintf("%s.%s#shape", pkgShort(dc.Pkg), dc.Type)
	}
	return fmt.Sprintf("%s.%s#dispatch:%s", pkgShort(dc.Pkg), dc.Type, dc.Method)
}

func (dc *DispatchCheck) describe() string {
	switch dc.Kind {
	case "receiver":
		return fmt.Sprintf("%s.%s has a pointer receiver", dc.Type, dc.Method)
	case "shape":
		return fmt.Sprintf("struct %s has the recorded fields, types and tags", dc.Type)
	}
	return fmt.Sprintf("%s.%s is the member promoted from the embedded %s", dc.Type, dc.Method, dc.From)
}

// holds reports whether Type's method set (value and pointer) selects Method through the embedded field From.
func (dc *DispatchCheck) holds(l *Loaded) (bool, string) {
	path := modPath
	if dc.Pkg != "" {
		path += "/" + dc.Pkg
	}
	p := l.ByPath[path]
	if p == nil || p.Types == nil {
		return false, "package not loaded"
	}
	tn, _ := p.Types.Scope().Lookup(dc.Type).(*types.TypeName)
	if tn == nil {
		return false, "type " + dc.Type + " not found"
	}
	if dc.Kind == "shape" {
		want := loadTypeBaseline()[dc.Pkg][dc.Type]
		got := structShapes[filepath.Join(repoDir, dc.Pkg)][dc.Type]
		if want == nil {
			return false, "no recorded shape for " + dc.Type + " (baseline/types.json)"
		}
		if strings.Join(want, "\n") != strings.Join(got, "\n") {
			for i := 0; i < len(want) || i < len(got); i++ {
				w, g := "", ""
				if i < len(want) {
					w = want[i]
				}
				if i < len(got) {
					g = got[i]
				}
				if w != g {
					return false, fmt.Sprintf("struct %s: field %d is now %q, recorded %q", dc.Type, i, g, w)
				}
			}
		}
		return true, ""
	}
	obj, index, _ := types.LookupFieldOrMethod(tn.Type(), true, p.Types, dc.Method)
	if dc.Kind == "receiver" {
		fn, ok := obj.(*types.Func)
		if !ok {
			return false, "no method " + dc.Method
		}
		recv := fn.Type().(*types.Signature).Recv()
		if recv == nil {
			return false, dc.Method + " has no receiver"
		}
		if _, isPtr := recv.Type().(*types.Pointer); !isPtr {
			return false, fmt.Sprintf("%s.%s is declared with a value receiver (%s): it acts on a copy of the object it is called on", dc.Type, dc.Method, l.Prog.Fset.Position(fn.Pos()))
		}
		return true, ""
	}
	if obj == nil {
		return false, "no member " + dc.Method
	}
	fn := obj
	if len(index) < 2 {
		return false, fmt.Sprintf("%s.%s is declared on %s itself (%s): it replaces the one promoted from %s", dc.Type, dc.Method, dc.Type, l.Prog.Fset.Position(fn.Pos()), dc.From)
	}
	st, ok := tn.Type().Underlying().(*types.Struct)
	if !ok || index[0] >= st.NumFields() || st.Field(index[0]).Name() != dc.From {
		return false, fmt.Sprintf("%s.%s is not promoted from %s", dc.Type, dc.Method, dc.From)
	}
	return true, ""
}

var pkgDirs = []string{"", "xmlenc", "samlsp", "samlidp"}

func pkgShort(dir string) string {
	if dir == "" {
		return "saml"
	}
	return dir
}

var clauseRe = regexp.MustCompile(`^(requires|ensures|records|invariant|assert@call|assert@store|assert@return|derive@call|assume)(\[[^\]]*\])?\s+(.*)$`)
// a derived conclusion: one ghost predicate applied to names or access paths (x, *x, x.f.g, x[0])
var deriveRe = regexp.MustCompile(`^[A-Z][A-Za-z0-9_]*\((\s*\*?[A-Za-z_][A-Za-z0-9_]*(\.[A-Za-z_][A-Za-z0-9_]*|\[[0-9]+\])*\s*,?)*\)$`)
var recordsRe = regexp.MustCompile(`^[A-Z][A-Za-z0-9_]*\((\s*\*?[A-Za-z_][A-Za-z0-9_]*\s*,?)*\)$`)
var labelRe = regexp.MustCompile(`^([A-Za-z0-9_.\-]+):\s+(.*)$`)

// readSpecLines returns logical //@ lines of a file (continuations joined).
func readSpecLines(path string) ([][2]string, error) {
	data, err := os.ReadFile(path)
	if err != nil {
		return nil, err
	}
	var out [][2]string
	for i, ln := range strings.Split(string(data), "\n") {
		t := strings.TrimSpace(ln)
		if !strings.HasPrefix(t, "//@") {
			continue
		}
		body := strings.TrimPrefix(t, "//@")
		if strings.HasPrefix(body, "   ") || strings.HasPrefix(body, "\t") {
			if len(out) > 0 {
				out[len(out)-1][0] += "\n" + strings.TrimSpace(body)
			}
			continue
		}
		body = strings.TrimSpace(body)
		if body == "" || strings.HasPrefix(body, "--") {
			continue
		}
		out = append(out, [2]string{body, fmt.Sprintf("%s:%d", path, i+1)})
	}
	return out, nil
}

func parseTags(t string) []string {
	t = strings.Trim(t, "[]")
	if t == "" {
		return nil
	}
	var r []string
	for _, x := range strings.Split(t, ",") {
		r = append(r, strings.TrimSpace(x))
	}
	return r
}

func (cs *ContractSet) parseFile(path, pkgDir string, extern bool) {
	lines, err := readSpecLines(path)
	if err != nil {
		cs.errs = append(cs.errs, err.Error())
		return
	}
	sf := cs.files[pkgDir]
	if sf == nil {
		sf = &specFile{pkgDir: pkgDir}
		cs.files[pkgDir] = sf
	}
	var cur *Contract
	var curExt *ExternContract
	var curLoop int
	extPkg := ""
	var curVars, curVarTypes, curVarLocals []string
	for _, l := range lines {
		body, where := l[0], l[1]
		word := body
		rest := ""
		if i := strings.IndexAny(body, " \t\n"); i >= 0 {
			word, rest = body[:i], strings.TrimSpace(body[i+1:])
		}
		switch {
		case word == "package" && extern:
			extPkg = rest
			if extPkg == "saml" {
				extPkg = ""
			}
		case word == "import":
			f := strings.Fields(rest)
			var is importSpec
			if len(f) == 2 {
				is = importSpec{f[0], strings.Trim(f[1], `"`)}
			} else if len(f) == 1 {
				p := strings.Trim(f[0], `"`)
				is = importSpec{guessPkgName(p), p}
			}
			if extern && extPkg != "" {
				cs.extPkgImports[extPkg] = append(cs.extPkgImports[extPkg], is)
			} else if extern {
				cs.extImports = append(cs.extImports, is)
			} else {
				sf.imports = append(sf.imports, is)
			}
		case word == "go" || word == "ghost":
			if extern && extPkg != "" {
				cs.extPkgDecls[extPkg] = append(cs.extPkgDecls[extPkg], rest)
			} else if extern {
				cs.extDecls = append(cs.extDecls, rest)
			} else {
				sf.goDecls = append(sf.goDecls, rest)
			}
		case word == "axiom":
			// axiom name (params): expr    -- universally quantified rule over ghost predicates
			i := strings.Index(rest, "(")
			if i < 0 {
				cs.errs = append(cs.errs, where+": axiom needs (params)")
				continue
			}
			name := strings.TrimSpace(rest[:i])
			d, j := 0, i
			for ; j < len(rest); j++ {
				if rest[j] == '(' {
					d++
				} else if rest[j] == ')' {
					d--
					if d == 0 {
						break
					}
				}
			}
			body := strings.TrimSpace(rest[j+1:])
			body = strings.TrimPrefix(body, ":")
			cs.axioms = append(cs.axioms, &Axiom{Name: name, Params: splitParams(rest[i+1 : j]), Text: strings.TrimSpace(body), Pkg: pkgDir, File: where})
		case word == "globalinv" || word == "configinv":
			lm := labelRe.FindStringSubmatch(rest)
			if lm == nil {
				cs.errs = append(cs.errs, where+": "+word+" needs label: expr")
				continue
			}
			cs.globalInvs = append(cs.globalInvs, &GlobalInv{Label: lm[1], Text: lm[2], Pkg: pkgDir, Checked: word == "globalinv", File: where})
		case word == "receiver" || strings.HasPrefix(word, "receiver[") || word == "xmlshape" || strings.HasPrefix(word, "xmlshape["):
			// receiver[tags] Type.Method pointer   -- the method is declared on *Type (it acts on the caller's object, not a copy)
			// xmlshape[tags] Type                  -- the struct's fields, their types and tags are the recorded ones: the
			//                                         assumed behaviour of encoding/xml and encoding/json is relative to them
			f := strings.Fields(rest)
			tags := ""
			if i := strings.Index(word, "["); i >= 0 {
				tags = word[i:]
			}
			switch {
			case strings.HasPrefix(word, "receiver") && len(f) == 2 && f[1] == "pointer" && strings.Contains(f[0], "."):
				i := strings.Index(f[0], ".")
				cs.dispatch = append(cs.dispatch, &DispatchCheck{Kind: "receiver", Pkg: pkgDir, Type: f[0][:i], Method: f[0][i+1:], Tags: parseTags(tags), File: where})
			case strings.HasPrefix(word, "xmlshape") && len(f) == 1:
				cs.dispatch = append(cs.dispatch, &DispatchCheck{Kind: "shape", Pkg: pkgDir, Type: f[0], Tags: parseTags(tags), File: where})
			default:
				cs.errs = append(cs.errs, where+": expected `receiver Type.Method pointer` or `xmlshape Type`")
			}
		case word == "dispatch" || strings.HasPrefix(word, "dispatch["):
			// dispatch[tags] Type.Method promoted Embedded -- the method a dependency calls back through an interface is the one
			// promoted from that embedded field (so that the assumed contract of the dependency describes what really runs)
			f := strings.Fields(rest)
			tags := ""
			if i := strings.Index(word, "["); i >= 0 {
				tags = word[i:]
			}
			if len(f) == 3 && f[1] == "promoted" && strings.Contains(f[0], ".") {
				i := strings.Index(f[0], ".")
				cs.dispatch = append(cs.dispatch, &DispatchCheck{Pkg: pkgDir, Type: f[0][:i], Method: f[0][i+1:], From: f[2], Tags: parseTags(tags), File: where})
			} else {
				cs.errs = append(cs.errs, where+": dispatch needs `Type.Method promoted EmbeddedField`")
			}
		case word == "guardedby":
			f := strings.Fields(rest)
			if len(f) == 2 && strings.Contains(f[0], ".") {
				i := strings.Index(f[0], ".")
				cs.guards = append(cs.guards, [3]string{pkgShort(pkgDir) + "." + f[0][:i], f[0][i+1:], f[1]})
			}
		case word == "sharedconfig":
			for _, t := range strings.Fields(rest) {
				cs.sharedCfg = append(cs.sharedCfg, pkgShort(pkgDir)+"."+t)
			}
		case word == "typeinv":
			f := strings.Fields(rest)
			if len(f) == 2 {
				cs.typeInvs = append(cs.typeInvs, [2]string{f[0], f[1]})
			}
		case word == "mapinv" && strings.Contains(strings.Fields(rest+" x")[0], "."):
			f := strings.Fields(rest)
			if len(f) >= 2 {
				// mapinv Type.field nonnil [distinct]
				cs.mapInvs = append(cs.mapInvs, [2]string{"F:" + pkgShort(pkgDir) + "." + f[0], strings.Join(f[1:], "+")})
			}
		case word == "mapinv":
			f := strings.Fields(rest)
			if len(f) == 2 {
				path := modPath
				if pkgDir != "" {
					path += "/" + pkgDir
				}
				cs.mapInvs = append(cs.mapInvs, [2]string{"G:" + path + "." + f[0], f[1]})
			}
		case word == "contract":
			cur = nil
			for _, c := range cs.contracts {
				if c.Key == contractKey(pkgDir, rest) {
					cur = c // several blocks for one function are merged
				}
			}
			if cur == nil {
				cur = &Contract{RawKey: rest, Pkg: pkgDir, File: where}
				cur.Key = contractKey(pkgDir, rest)
				cs.contracts = append(cs.contracts, cur)
			}
			curExt = nil
			curLoop = 0
		case word == "extern":
			curExt = &ExternContract{Key: rest, File: where, Pkg: extPkg}
			cs.externs = append(cs.externs, curExt)
			cur = nil
		case word == "sig" && curExt != nil:
			curExt.Sig = rest
		case word == "pure" && curExt != nil:
			curExt.Pure = true
			curExt.ByValue = rest == "byvalue"
		case word == "fresh" && curExt != nil:
			curExt.Fresh = true
		case word == "clock" && curExt != nil:
			// clock reads    -- the result is a reading of the clock: a function of the arguments and of the ghost epoch
			// clock advances -- the call may take time (network, sleep): the ghost epoch moves on
			curExt.ClockReads = rest == "reads"
			curExt.ClockAdvances = rest == "advances"
		case word == "modifies" && curExt != nil:
			curExt.Modifies = append(curExt.Modifies, rest)
		case word == "arith" && cur != nil:
			cur.Wrap64 = rest == "wrap64"
		case word == "trusted" && cur != nil:
			cur.Trusted = true
		case word == "atomic" && cur != nil:
			cur.Atomic = true
		case word == "loop" && cur != nil:
			// loop N [vars name type, name type]
			f := strings.SplitN(rest, "vars", 2)
			fmt.Sscanf(strings.TrimSpace(f[0]), "%d", &curLoop)
			curVars, curVarTypes, curVarLocals = nil, nil, nil
			if len(f) == 2 {
				for _, d := range strings.Split(f[1], ",") {
					d = strings.TrimSpace(d)
					if d == "" {
						continue
					}
					j := strings.Index(d, " ")
					if j < 0 {
						cs.errs = append(cs.errs, where+": loop var needs a type: "+d)
						continue
					}
					nm, loc := d[:j], d[:j]
					if k := strings.Index(nm, "="); k > 0 {
						nm, loc = nm[:k], nm[k+1:]
					}
					curVars = append(curVars, nm)
					curVarLocals = append(curVarLocals, loc)
					curVarTypes = append(curVarTypes, strings.TrimSpace(d[j+1:]))
				}
			}
		case strings.HasPrefix(word, "canary") && cur != nil:
			tags := ""
			if i := strings.Index(word, "["); i >= 0 {
				tags = word[i:]
			}
			cur.Ensures = append(cur.Ensures, &Clause{Kind: "ensures", Label: "canary", Tags: parseTags(tags), Text: "false", Canary: true, File: where})
		default:
			m := clauseRe.FindStringSubmatch(strings.Replace(body, "\n", " ", -1))
			if m == nil {
				cs.errs = append(cs.errs, where+": cannot parse: "+body)
				continue
			}
			kind, tags, text := m[1], parseTags(m[2]), m[3]
			cl := &Clause{Kind: kind, Tags: tags, File: where}
			if kind == "assert@store" {
				cl.AtStore = true
			}
			if kind == "assert@return" {
				cl.AtReturn = true
				text = "return " + text
			}
			if kind == "assert@call" || kind == "derive@call" || kind == "assert@store" || kind == "assert@return" {
				// assert@call[tags] <callee> #n label: expr
				f := strings.SplitN(text, " ", 3)
				if len(f) < 3 {
					cs.errs = append(cs.errs, where+": assert@call needs callee #n label: expr")
					continue
				}
				cl.Callee = f[0]
				if f[1] == "#last" {
					cl.Ordinal = -1 // the last occurrence in source order
				} else if f[1] == "#each" {
					cl.Ordinal = 0 // every occurrence - of which there may be none (`#0`: every occurrence, at least one)
					cl.Each = true
				} else {
					fmt.Sscanf(f[1], "#%d", &cl.Ordinal)
				}
				text = strings.TrimSpace(f[2])
				if strings.HasPrefix(text, "(") {
					d := 0
					for j := 0; j < len(text); j++ {
						if text[j] == '(' {
							d++
						} else if text[j] == ')' {
							d--
							if d == 0 {
								cl.ExtraParams = splitParams(text[1:j])
								text = strings.TrimSpace(text[j+1:])
								break
							}
						}
					}
				}
				if strings.HasPrefix(text, "uses ") {
					// uses name type, name type label: expr   -- the list ends at the first "ident:" token
					rest := text[5:]
					idx := regexp.MustCompile(`(^|\s)[A-Za-z0-9_.\-]+:\s`).FindStringIndex(rest)
					if idx != nil {
						decl := strings.TrimSpace(rest[:idx[0]])
						text = strings.TrimSpace(rest[idx[0]:])
						for _, d := range splitParams(decl) {
							j := strings.Index(d, " ")
							if j > 0 {
								nm, loc := d[:j], d[:j]
								if k := strings.Index(nm, "="); k > 0 {
									nm, loc = nm[:k], nm[k+1:]
								}
								cl.VarNames = append(cl.VarNames, nm)
								cl.VarLocal = append(cl.VarLocal, loc)
								cl.VarTypes = append(cl.VarTypes, strings.TrimSpace(d[j+1:]))
							}
						}
					}
				}
				cl.Kind = "assert"
			}
			lm := labelRe.FindStringSubmatch(text)
			if lm == nil {
				cs.errs = append(cs.errs, where+": clause needs a label: "+text)
				continue
			}
			cl.Label, cl.Text = lm[1], lm[2]
			if kind == "derive@call" {
				i := strings.LastIndex(cl.Text, "|-")
				if i < 0 {
					cs.errs = append(cs.errs, where+": derive@call needs `premise |- GhostFact(args)`")
					continue
				}
				cl.Derive = strings.TrimSpace(cl.Text[i+2:])
				cl.Text = strings.TrimSpace(cl.Text[:i])
				if !deriveRe.MatchString(cl.Derive) {
					cs.errs = append(cs.errs, where+": derived conclusion must be one ghost predicate applied to names or access paths: "+cl.Derive)
					continue
				}
			}
			switch {
			case curExt != nil:
				if kind == "requires" {
					curExt.Requires = append(curExt.Requires, cl)
				} else {
					curExt.Ensures = append(curExt.Ensures, cl)
				}
			case cur != nil:
				switch cl.Kind {
				case "requires":
					cur.Requires = append(cur.Requires, cl)
				case "ensures":
					cur.Ensures = append(cur.Ensures, cl)
				case "records":
					if !recordsRe.MatchString(strings.TrimSpace(cl.Text)) {
						cs.errs = append(cs.errs, where+": records clause must be a single call-history predicate applied to parameter/result names: "+cl.Text)
						continue
					}
					cl.Records = true
					cl.Kind = "ensures"
					cur.Ensures = append(cur.Ensures, cl)
				case "invariant":
					cl.Loop = curLoop
					cl.VarNames, cl.VarTypes, cl.VarLocal = curVars, curVarTypes, curVarLocals
					cur.Loops = append(cur.Loops, cl)
				case "assert":
					cur.Asserts = append(cur.Asserts, cl)
				}
			default:
				cs.errs = append(cs.errs, where+": clause outside contract")
			}
		}
	}
}

func guessPkgName(path string) string {
	parts := strings.Split(path, "/")
	n := parts[len(parts)-1]
	if len(parts) > 1 && regexp.MustCompile(`^v[0-9]+$`).MatchString(n) {
		n = parts[len(parts)-2]
	}
	n = strings.TrimPrefix(n, "go-")
	n = strings.Replace(n, "-", "_", -1)
	n = strings.Replace(n, ".", "_", -1)
	return n
}

// contractKey builds the funcName-style key from the short form used in contract files.
func contractKey(pkgDir, raw string) string {
	short := pkgShort(pkgDir)
	if strings.HasPrefix(raw, "(") {
		j := strings.Index(raw, ")")
		recv := raw[1:j]
		if strings.HasPrefix(recv, "*") {
			return "(*" + short + "." + recv[1:] + ")" + raw[j+1:]
		}
		return "(" + short + "." + recv + ")" + raw[j+1:]
	}
	return short + "." + raw
}

func rewriteImplies(e string) string {
	// a ==> b  (right associative, lowest precedence)  ->  !(a) || (b)
	depth := 0
	for i := 0; i+2 < len(e); i++ {
		switch e[i] {
		case '(', '[', '{':
			depth++
		case ')', ']', '}':
			depth--
		case '"':
			for i++; i < len(e) && e[i] != '"'; i++ {
				if e[i] == '\\' {
					i++
				}
			}
		case '=':
			if depth == 0 && strings.HasPrefix(e[i:], "==>") {
				return "!(" + rewriteImpliesNested(e[:i]) + ") || (" + rewriteImplies(e[i+3:]) + ")"
			}
		}
	}
	return rewriteImpliesNested(e)
}

// rewriteImpliesNested rewrites ==> inside parenthesised groups.
func rewriteImpliesNested(e string) string {
	if !strings.Contains(e, "==>") {
		return e
	}
	var b strings.Builder
	for i := 0; i < len(e); i++ {
		c := e[i]
		if c == '"' {
			j := i + 1
			for ; j < len(e) && e[j] != '"'; j++ {
				if e[j] == '\\' {
					j++
				}
			}
			b.WriteString(e[i:min(j+1, len(e))])
			i = j
			continue
		}
		if c == '(' || c == '{' {
			// find matching close
			close := byte(')')
			if c == '{' {
				close = '}'
			}
			d := 0
			j := i
			for ; j < len(e); j++ {
				if e[j] == '"' {
					for j++; j < len(e) && e[j] != '"'; j++ {
						if e[j] == '\\' {
							j++
						}
					}
					continue
				}
				if e[j] == c {
					d++
				} else if e[j] == close {
					d--
					if d == 0 {
						break
					}
				}
			}
			if j >= len(e) {
				b.WriteString(e[i:])
				return b.String()
			}
			inner := e[i+1 : j]
			if c == '{' {
				// function literal body: "return X" statements
				b.WriteByte(c)
				b.WriteString(rewriteReturn(inner))
				b.WriteByte(close)
			} else {
				b.WriteByte(c)
				b.WriteString(rewriteImplies(inner))
				b.WriteByte(close)
			}
			i = j
			continue
		}
		b.WriteByte(c)
	}
	return b.String()
}

func rewriteReturn(body string) string {
	t := strings.TrimSpace(body)
	if strings.HasPrefix(t, "return ") && !strings.Contains(t, ";") {
		return " return " + rewriteImplies(strings.TrimPrefix(t, "return ")) + " "
	}
	return body
}

func min(a, b int) int {
	if a < b {
		return a
	}
	return b
}

// ---------------------------------------------------------------------------
// synthesis of spec functions (overlay files)

type funcSig struct {
	params  []string // "name type"
	pnames  []string
	results []string
	rnames  []string
	file    string
	calls   []string // names of the functions and methods the body calls (syntactic)
	loops   int      // for / range statements in the body (function literals included)
	nest    string   // their nesting: "L" per loop, children in parentheses, e.g. "L(L)L"
	carried []string // names of variables assigned (=, op=, ++) inside a loop body: what the loops carry around
}

// structFields: struct type name -> field name -> type, of the package last scanned by scanPackage (used by the
// re-binding of contracts of renamed functions only)
var structFields = map[string]map[string]map[string]string{}

// codecMethods: type name -> "method M" for each (de)serialisation hook declared on it, per scanned directory
var codecMethods = map[string]map[string][]string{}

// structShapes: struct type name -> its fields in order, each as "Name Type `tag`" (embedded: "Type `tag`"), per scanned directory
var structShapes = map[string]map[string][]string{}

func exprString(fset *token.FileSet, e ast.Expr) string {
	var b bytes.Buffer
	printer.Fprint(&b, fset, e)
	return b.String()
}

// scanPackage parses the package's source files: function signatures and imports.
func scanPackage(dir string) (map[string]*funcSig, []importSpec, error) {
	fset := token.NewFileSet()
	ents, err := os.ReadDir(dir)
	if err != nil {
		return nil, nil, err
	}
	sigs := map[string]*funcSig{}
	delete(codecMethods, dir)
	initAcc := map[string]*funcSig{} // per file: its init function
	var imps []importSpec
	for _, ent := range ents {
		n := ent.Name()
		if !strings.HasSuffix(n, ".go") || strings.HasSuffix(n, "_test.go") || n == "verif_contracts.go" || n == "fuzz.go" {
			continue
		}
		f, err := parser.ParseFile(fset, filepath.Join(dir, n), nil, parser.SkipObjectResolution)
		if err != nil {
			return nil, nil, err
		}
		for _, is := range f.Imports {
			p := strings.Trim(is.Path.Value, `"`)
			alias := guessPkgName(p)
			if is.Name != nil {
				alias = is.Name.Name
			}
			if alias == "_" || alias == "." {
				continue
			}
			imps = append(imps, importSpec{alias, p})
		}
		for _, d := range f.Decls {
			if gd, ok := d.(*ast.GenDecl); ok && gd.Tok == token.TYPE {
				for _, sp := range gd.Specs {
					ts, ok := sp.(*ast.TypeSpec)
					if !ok {
						continue
					}
					stt, ok := ts.Type.(*ast.StructType)
					if !ok {
						continue
					}
					if structFields[dir] == nil {
						structFields[dir] = map[string]map[string]string{}
					}
					fm := map[string]string{}
					var shape []string
					for _, fl := range stt.Fields.List {
						tag := ""
						if fl.Tag != nil {
							tag = " " + fl.Tag.Value
						}
						for _, nm := range fl.Names {
							fm[nm.Name] = exprString(fset, fl.Type)
							shape = append(shape, nm.Name+" "+exprString(fset, fl.Type)+tag)
						}
						if len(fl.Names) == 0 {
							shape = append(shape, exprString(fset, fl.Type)+tag)
						}
					}
					structFields[dir][ts.Name.Name] = fm
					if structShapes[dir] == nil {
						structShapes[dir] = map[string][]string{}
					}
					structShapes[dir][ts.Name.Name] = shape
				}
			}
			fd, ok := d.(*ast.FuncDecl)
			if !ok {
				continue
			}
			if fd.Recv != nil && len(fd.Recv.List) == 1 {
				switch fd.Name.Name {
				case "MarshalXML", "UnmarshalXML", "MarshalXMLAttr", "UnmarshalXMLAttr", "MarshalText", "UnmarshalText", "MarshalJSON", "UnmarshalJSON", "Valid":
					// the hooks through which a type takes over its own (de)serialisation or validity: part of its shape
					rt := strings.TrimPrefix(exprString(fset, fd.Recv.List[0].Type), "*")
					if codecMethods[dir] == nil {
						codecMethods[dir] = map[string][]string{}
					}
					codecMethods[dir][rt] = append(codecMethods[dir][rt], "method "+fd.Name.Name)
				}
			}
			key := fd.Name.Name
			if fd.Recv != nil && len(fd.Recv.List) == 1 {
				key = "(" + exprString(fset, fd.Recv.List[0].Type) + ")." + key
			}
			sigs[key] = buildSig(fset, n, fd.Recv, fd.Type)
			if fd.Body != nil {
				seen := map[string]bool{}
				ast.Inspect(fd.Body, func(x ast.Node) bool {
					if ce, ok := x.(*ast.CallExpr); ok {
						nm := ""
						switch f := ce.Fun.(type) {
						case *ast.Ident:
							nm = f.Name
						case *ast.SelectorExpr:
							nm = f.Sel.Name
						}
						if nm != "" && !seen[nm] {
							seen[nm] = true
							sigs[key].calls = append(sigs[key].calls, nm)
						}
					}
					return true
				})
				sort.Strings(sigs[key].calls)
				ast.Inspect(fd.Body, func(x ast.Node) bool {
					switch x.(type) {
					case *ast.ForStmt, *ast.RangeStmt:
						sigs[key].loops++
					}
					return true
				})
				carried := map[string]bool{}
				ast.Inspect(fd.Body, func(x ast.Node) bool {
					var body *ast.BlockStmt
					switch l := x.(type) {
					case *ast.ForStmt:
						body = l.Body
					case *ast.RangeStmt:
						body = l.Body
					}
					if body != nil {
						ast.Inspect(body, func(y ast.Node) bool {
							switch a := y.(type) {
							case *ast.AssignStmt:
								if a.Tok != token.DEFINE {
									for _, l := range a.Lhs {
										if id, ok := l.(*ast.Ident); ok && id.Name != "_" {
											carried[id.Name] = true
										}
									}
								}
							case *ast.IncDecStmt:
								if id, ok := a.X.(*ast.Ident); ok {
									carried[id.Name] = true
								}
							}
							return true
						})
					}
					return true
				})
				sigs[key].carried = sortedKeysB(carried)
				var nest func(n ast.Node) string
				nest = func(n ast.Node) string {
					out := ""
					ast.Inspect(n, func(x ast.Node) bool {
						if x == nil || x == n {
							return true
						}
						var body *ast.BlockStmt
						switch l := x.(type) {
						case *ast.ForStmt:
							body = l.Body
						case *ast.RangeStmt:
							body = l.Body
						}
						if body != nil {
							out += "L"
							if in := nest(body); in != "" {
								out += "(" + in + ")"
							}
							return false
						}
						return true
					})
					return out
				}
				sigs[key].nest = nest(fd.Body)
			}
			if fd.Name.Name == "init" && fd.Recv == nil {
				// several init functions share the name: their loops are added up
				if prev := initAcc[n]; prev == nil {
					initAcc[n] = sigs[key]
				}
				tot, nst := 0, ""
				for _, fname := range sortedKeys(initAcc) {
					tot += initAcc[fname].loops
					nst += initAcc[fname].nest
				}
				agg := *sigs[key]
				agg.loops, agg.nest = tot, nst
				sigs[key] = &agg
			}
			// function literals, numbered the way go/ssa names them: Outer$1, Outer$2, Outer$1$1 ...
			var lits func(node ast.Node, prefix string)
			lits = func(node ast.Node, prefix string) {
				if node == nil {
					return
				}
				cnt := 0
				ast.Inspect(node, func(x ast.Node) bool {
					if fl, ok := x.(*ast.FuncLit); ok {
						cnt++
						k := fmt.Sprintf("%s$%d", prefix, cnt)
						sigs[k] = buildSig(fset, n, nil, fl.Type)
						lits(fl.Body, k)
						return false
					}
					return true
				})
			}
			if fd.Body != nil {
				lits(fd.Body, key)
			}
		}
	}
	for tname, ms := range codecMethods[dir] {
		if shape, ok := structShapes[dir][tname]; ok {
			has := false
			for _, l := range shape {
				if strings.HasPrefix(l, "method ") {
					has = true
				}
			}
			if !has {
				sort.Strings(ms)
				structShapes[dir][tname] = append(shape, ms...)
			}
		}
	}
	return sigs, imps, nil
}

func sortedKeys(m map[string]*funcSig) []string {
	var ks []string
	for k := range m {
		ks = append(ks, k)
	}
	sort.Strings(ks)
	return ks
}

func buildSig(fset *token.FileSet, n string, recv *ast.FieldList, ftype *ast.FuncType) *funcSig {
	sig := &funcSig{file: n}
	np := 0
	addField := func(name string, t ast.Expr) {
		ts := exprString(fset, t)
		if el, ok := t.(*ast.Ellipsis); ok {
			ts = "[]" + exprString(fset, el.Elt)
		}
		if name == "" || name == "_" {
			name = fmt.Sprintf("_p%d", np)
		}
		np++
		sig.params = append(sig.params, name+" "+ts)
		sig.pnames = append(sig.pnames, name)
	}
	if recv != nil && len(recv.List) == 1 {
		r := recv.List[0]
		name := ""
		if len(r.Names) == 1 {
			name = r.Names[0].Name
		}
		addField(name, r.Type)
	}
	for _, p := range ftype.Params.List {
		if len(p.Names) == 0 {
			addField("", p.Type)
		}
		for _, nm := range p.Names {
			addField(nm.Name, p.Type)
		}
	}
	if ftype.Results != nil {
		var rts []ast.Expr
		var rns []string
		for _, r := range ftype.Results.List {
			if len(r.Names) == 0 {
				rts = append(rts, r.Type)
				rns = append(rns, "")
			}
			for _, nm := range r.Names {
				rts = append(rts, r.Type)
				rns = append(rns, nm.Name)
			}
		}
		for i, rt := range rts {
			ts := exprString(fset, rt)
			name := rns[i]
			if name == "" || name == "_" {
				switch {
				case len(rts) == 1 && ts == "error":
					name = "err"
				case len(rts) == 1:
					name = "result"
				case len(rts) == 2 && i == 0 && exprString(fset, rts[1]) == "error":
					name = "result"
				case len(rts) == 2 && i == 1 && ts == "error":
					name = "err"
				default:
					name = fmt.Sprintf("ret%d", i)
				}
			}
			sig.results = append(sig.results, name+" "+ts)
			sig.rnames = append(sig.rnames, name)
		}
	}
	return sig
}


var sigRe = regexp.MustCompile(`^func\s*\((.*)\)\s*(\(.*\)|[^()\s].*)?$`)

// buildOverlay synthesises one spec file per package.
func (cs *ContractSet) buildOverlay() (map[string][]byte, error) {
	overlay := map[string][]byte{}
	fbase := loadFuncBaseline()
	n := 0
	for _, dir := range pkgDirs {
		sigs, srcImps, err := scanPackage(filepath.Join(repoDir, dir))
		if err != nil {
			return nil, err
		}
		if cs.curSigs == nil {
			cs.curSigs = map[string]map[string]*funcSig{}
		}
		cs.curSigs[dir] = sigs
		sf := cs.files[dir]
		if sf == nil {
			sf = &specFile{pkgDir: dir}
		}
		// functions declared in the contract file itself (lemmas, helpers)
		if len(sf.goDecls) > 0 {
			tmp, err := os.CreateTemp("", "govc-decl-*")
			if err == nil {
				tdir := tmp.Name() + ".d"
				tmp.Close()
				os.Remove(tmp.Name())
				os.MkdirAll(tdir, 0o755)
				os.WriteFile(filepath.Join(tdir, "decls.go"), []byte("package x\n"+strings.Join(sf.goDecls, "\n")+"\n"), 0o644)
				if ds, _, err := scanPackage(tdir); err == nil {
					for k, v := range ds {
						sigs[k] = v
					}
				} else {
					cs.errs = append(cs.errs, "go decls of "+pkgShort(dir)+": "+err.Error())
				}
				os.RemoveAll(tdir)
			}
		}
		var body strings.Builder
		body.WriteString("\nfunc forall(lo, hi int, f func(k int) bool) bool\nfunc exists(lo, hi int, f func(k int) bool) bool\nfunc ns(t time.Time) int64\nfunc NoLocksHeld() bool\nfunc old(x int) int\nfunc oldS(x string) string\n")
		if dir == "" {
			for _, d := range cs.extDecls {
				body.WriteString(d + "\n")
			}
		} else {
			// ghost vocabulary of the root extern files is shared by name (uninterpreted functions are keyed by name)
			for _, d := range cs.extDecls {
				if strings.HasPrefix(strings.TrimSpace(d), "func ") && !strings.Contains(d, "{") {
					body.WriteString(d + "\n")
				}
			}
		}
		for _, d := range cs.extPkgDecls[dir] {
			body.WriteString(d + "\n")
		}
		for _, d := range sf.goDecls {
			body.WriteString(d + "\n")
		}
		var curRB *rebinding
		emit := func(cl *Clause, params []string) {
			n++
			cl.FnName = fmt.Sprintf("spec_%d_%s", n, sanitize(cl.Label))
			pro := ""
			if curRB != nil {
				pro = curRB.Prologue
			}
			fmt.Fprintf(&body, "func %s(%s) bool { %sreturn %s }\n", cl.FnName, strings.Join(params, ", "), pro, rewriteImplies(strings.Replace(curRB.apply(cl.Text), "\n", " ", -1)))
		}
		for _, gi := range cs.globalInvs {
			if gi.Pkg != dir {
				continue
			}
			n++
			gi.FnName = fmt.Sprintf("globalinv_%d_%s", n, sanitize(gi.Label))
			fmt.Fprintf(&body, "func %s() bool { return %s }\n", gi.FnName, rewriteImplies(gi.Text))
		}
		for _, ax := range cs.axioms {
			if ax.Pkg != dir {
				continue
			}
			n++
			ax.FnName = fmt.Sprintf("axiom_%d_%s", n, sanitize(ax.Name))
			fmt.Fprintf(&body, "func %s(%s) bool { return %s }\n", ax.FnName, strings.Join(ax.Params, ", "), rewriteImplies(strings.Replace(ax.Text, "\n", " ", -1)))
		}
		for _, ct := range cs.contracts {
			if ct.Pkg != dir {
				continue
			}
			sig := sigs[ct.RawKey]
			if sig == nil && ct.RawKey == "init" {
				sig = &funcSig{} // every package has an initialiser, declared or not
			}
			var rb *rebinding
			if sig == nil {
				// the function under contract no longer exists under that name and receiver: renamed or re-signatured?
				taken := map[string]bool{}
				for _, o := range cs.contracts {
					if o.Pkg == dir {
						taken[o.RawKey] = true
					}
				}
				if rb = findRenamed(dir, ct.RawKey, fbase[dir][ct.RawKey], sigs, fbase, taken, structFields[filepath.Join(repoDir, dir)]); rb != nil {
					cs.renames = append(cs.renames, rb)
					cs.notes = append(cs.notes, rb.Note)
					ct.RawKey = rb.New
					ct.Key = contractKey(dir, rb.New)
					sig = sigs[rb.New]
				}
			}
			if sig == nil {
				// not a load error: the contract is stale, the checks that list the function as a unit say so
				cs.notes = append(cs.notes, fmt.Sprintf("%s: stale contract: function %s not found in package %s", ct.File, ct.RawKey, pkgShort(dir)))
				continue
			}
			curRB = rb
			for _, cl := range ct.Requires {
				emit(cl, sig.params)
			}
			for _, cl := range ct.Ensures {
				emit(cl, append(append([]string{}, sig.params...), sig.results...))
			}
			for _, cl := range ct.Asserts {
				ps := append(append([]string{}, sig.params...), cl.ExtraParams...)
				if rb != nil {
					// a `uses` local that now is a parameter of the re-bound function: the parameter serves
					var vn, vt, vl []string
					for i, v := range cl.VarNames {
						isParam := false
						for _, pn := range sig.pnames {
							if pn == v {
								isParam = true
							}
						}
						if isParam && (i >= len(cl.VarLocal) || cl.VarLocal[i] == v) {
							continue
						}
						vn, vt = append(vn, v), append(vt, cl.VarTypes[i])
						if i < len(cl.VarLocal) {
							vl = append(vl, cl.VarLocal[i])
						}
					}
					cl.VarNames, cl.VarTypes, cl.VarLocal = vn, vt, vl
				}
				for i, v := range cl.VarNames {
					ps = append(ps, v+" "+cl.VarTypes[i])
				}
				emit(cl, ps)
				if cl.Derive != "" {
					n++
					cl.DeriveFnName = fmt.Sprintf("derive_%d_%s", n, sanitize(cl.Label))
					fmt.Fprintf(&body, "func %s(%s) bool { return %s }\n", cl.DeriveFnName, strings.Join(ps, ", "), curRB.apply(cl.Derive))
				}
			}
			for _, cl := range ct.Loops {
				ps := append([]string{}, sig.params...)
				for i, v := range cl.VarNames {
					ps = append(ps, v+" "+cl.VarTypes[i])
				}
				ps = append(ps, "iter int")
				emit(cl, ps)
			}
			curRB = nil
		}
		for _, ec := range cs.externs {
			if ec.Pkg != dir {
				continue
			}
			ps, rs, ok := splitSig(ec.Sig)
			if !ok {
				cs.errs = append(cs.errs, ec.File+": extern needs `sig func(params) (results)`: "+ec.Sig)
				continue
			}
			params := splitParams(ps)
			results := splitParams(rs)
			n++
			ec.SigFn = fmt.Sprintf("extsig_%d", n)
			fmt.Fprintf(&body, "func %s(%s) {}\n", ec.SigFn, strings.Join(params, ", "))
			for _, cl := range ec.Requires {
				emit(cl, params)
			}
			for _, cl := range ec.Ensures {
				emit(cl, append(append([]string{}, params...), results...))
			}
		}
		// imports: those whose alias is used in the body
		text := body.String()
		all := append(append(append([]importSpec{{"time", "time"}}, srcImps...), sf.imports...), cs.extImports...)
		all = append(all, cs.extPkgImports[dir]...)
		seen := map[string]string{}
		var impLines []string
		for _, is := range all {
			if p, ok := seen[is.alias]; ok {
				if p != is.path {
					// the package's own source wins (it is listed first); clauses written against the other
					// package become stale and are reported through their obligations
					cs.notes = append(cs.notes, fmt.Sprintf("package %s: import alias %s means %s in the source, contracts expected %s", pkgShort(dir), is.alias, p, is.path))
				}
				continue
			}
			if !regexp.MustCompile(`\b` + regexp.QuoteMeta(is.alias) + `\.`).MatchString(text) {
				continue
			}
			seen[is.alias] = is.path
			impLines = append(impLines, fmt.Sprintf("\t%s %q", is.alias, is.path))
		}
		sort.Strings(impLines)
		src := fmt.Sprintf("package %s\n\nimport (\n%s\n)\n%s", pkgShort(dir), strings.Join(impLines, "\n"), text)
		overlay[filepath.Join(repoDir, dir, "zz_verif_spec.go")] = []byte(src)
	}
	if len(cs.errs) > 0 {
		return overlay, fmt.Errorf("contract errors:\n%s", strings.Join(cs.errs, "\n"))
	}
	return overlay, nil
}

func splitSig(sig string) (params, results string, ok bool) {
	sig = strings.TrimSpace(sig)
	if !strings.HasPrefix(sig, "func") {
		return "", "", false
	}
	sig = strings.TrimSpace(sig[4:])
	if !strings.HasPrefix(sig, "(") {
		return "", "", false
	}
	d := 0
	for i := 0; i < len(sig); i++ {
		if sig[i] == '(' {
			d++
		} else if sig[i] == ')' {
			d--
			if d == 0 {
				params = sig[1:i]
				results = strings.TrimSpace(sig[i+1:])
				if strings.HasPrefix(results, "(") && strings.HasSuffix(results, ")") {
					results = results[1 : len(results)-1]
				}
				return params, results, true
			}
		}
	}
	return "", "", false
}

func sanitize(x string) string {
	return regexp.MustCompile(`[^A-Za-z0-9_]`).ReplaceAllString(x, "_")
}

func splitParams(s string) []string {
	s = strings.TrimSpace(s)
	if s == "" {
		return nil
	}
	var out []string
	depth := 0
	start := 0
	for i := 0; i < len(s); i++ {
		switch s[i] {
		case '(', '[', '{':
			depth++
		case ')', ']', '}':
			depth--
		case ',':
			if depth == 0 {
				out = append(out, strings.TrimSpace(s[start:i]))
				start = i + 1
			}
		}
	}
	out = append(out, strings.TrimSpace(s[start:]))
	return out
}

// loadContracts reads all contract files and returns the set plus overlay.
func loadContracts() (*ContractSet, map[string][]byte, error) {
	cs := &ContractSet{files: map[string]*specFile{}, extPkgImports: map[string][]importSpec{}, extPkgDecls: map[string][]string{}}
	for _, dir := range pkgDirs {
		p := filepath.Join(repoDir, dir, "verif_contracts.go")
		if _, err := os.Stat(p); err == nil {
			cs.parseFile(p, dir, false)
		}
	}
	exts, _ := filepath.Glob("/verif/contracts/extern/*.ctr")
	sort.Strings(exts)
	for _, p := range exts {
		cs.parseFile(p, "", true)
	}
	ov, err := cs.buildOverlay()
	return cs, ov, err
}

// resolve binds clauses to the synthesised SSA functions after loading.
func (cs *ContractSet) resolve(e *Engine) {
	l := e.L
	find := func(dir, name string) *ssa.Function {
		path := modPath
		if dir != "" {
			path += "/" + dir
		}
		sp := l.SSA[path]
		if sp == nil {
			return nil
		}
		return sp.Func(name)
	}
	for _, mi := range cs.mapInvs {
		e.mapInv[mi[0]] = mi[1]
	}
	for _, ti := range cs.typeInvs {
		e.typeInv[ti[0]] = ti[1]
	}
	for _, t := range cs.sharedCfg {
		e.sharedCfg[t] = true
	}
	for _, g := range cs.guards {
		e.guards[g[0]+"."+g[1]] = g[2]
	}
	for _, gi := range cs.globalInvs {
		gi.Fn = find(gi.Pkg, gi.FnName)
		if gi.Fn == nil {
			e.stale = append(e.stale, "globalinv "+gi.Label)
			continue
		}
		if gi.Checked {
			// every package variable the invariant reads must never be stored to outside package initialisers
			for _, b := range gi.Fn.Blocks {
				for _, in := range b.Instrs {
					for _, op := range in.Operands(nil) {
						if g, ok := (*op).(*ssa.Global); ok {
							if w := e.assignedOutsideInit(g); w != "" {
								e.stale = append(e.stale, fmt.Sprintf("globalinv %s: %s is assigned in %s", gi.Label, g.Name(), w))
							}
						}
					}
				}
			}
		}
		e.globalInvs = append(e.globalInvs, gi)
	}
	for _, ax := range cs.axioms {
		ax.Fn = find(ax.Pkg, ax.FnName)
		if ax.Fn == nil {
			e.stale = append(e.stale, "axiom "+ax.Name)
			continue
		}
		e.axiomDefs = append(e.axiomDefs, ax)
	}
	for _, rb := range cs.renames {
		e.renamedBare[bareName(rb.Old)] = bareName(rb.New)
		e.renamedKey[contractKey(rb.Dir, rb.Old)] = contractKey(rb.Dir, rb.New)
		e.renamedNew[contractKey(rb.Dir, rb.New)] = contractKey(rb.Dir, rb.Old)
	}
	e.stale = append(e.stale, cs.notes...)
	e.dispatch = cs.dispatch
	e.curSigs = cs.curSigs
	e.funcBase = loadFuncBaseline()
	for _, ct := range cs.contracts {
		fn := e.funcs[ct.Key]
		if fn == nil {
			e.stale = append(e.stale, "contract for missing function "+ct.Key)
			continue
		}
		for _, cl := range append(append(append(append([]*Clause{}, ct.Requires...), ct.Ensures...), ct.Loops...), ct.Asserts...) {
			cl.Fn = find(ct.Pkg, cl.FnName)
			if cl.DeriveFnName != "" {
				cl.DeriveFn = find(ct.Pkg, cl.DeriveFnName)
			}
		}
		e.contracts[ct.Key] = ct
		if ct.Wrap64 {
			e.wrap64[fn] = true
		}
		if ct.Atomic {
			if e.atomic == nil {
				e.atomic = map[*ssa.Function]bool{}
			}
			e.atomic[fn] = true
		}
	}
	for _, ec := range cs.externs {
		// argument types from the signature function in the root package
		if sf := find(ec.Pkg, ec.SigFn); sf != nil {
			for _, p := range sf.Params {
				ec.ArgTypes = append(ec.ArgTypes, p.Type())
			}
		}
		for _, cl := range append(append([]*Clause{}, ec.Requires...), ec.Ensures...) {
			cl.FnByPkg = map[string]*ssa.Function{}
			for _, dir := range pkgDirs {
				cl.FnByPkg[dir] = find(dir, cl.FnName)
			}
			cl.Fn = cl.FnByPkg[ec.Pkg]
		}
		e.externs[ec.Key] = ec
	}
}

func sortedKeysB(m map[string]bool) []string {
	var out []string
	for k := range m {
		out = append(out, k)
	}
	sort.Strings(out)
	return out
}

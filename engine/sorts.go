package main

import (
	"crypto/sha1"
	"fmt"
	"go/types"
	"sort"
	"strings"
)

func structKey(u *types.Struct) string {
	h := sha1.Sum([]byte(u.String()))
	return fmt.Sprintf("S:%x", h[:5])
}

// Sorts maps Go types to SMT sorts and owns the declarations that every query of
// one verification unit shares (datatypes, heaps, uninterpreted functions).
type Sorts struct {
	decls    []string          // ordered declarations (datatypes, funs)
	structs  map[string]string // struct key -> datatype name
	fields   map[string][]string
	typeIDs  map[string]int
	typeByID []types.Type
	ufs      map[string]bool
	n        int
	atAxioms []string // element access as uninterpreted function + definitional axiom (good triggers)
	atMacros []string // the same as a macro (no quantifier: good for model finding)
}

func newSorts() *Sorts {
	s := &Sorts{structs: map[string]string{}, fields: map[string][]string{}, typeIDs: map[string]int{}, ufs: map[string]bool{}}
	s.decls = append(s.decls,
		"(declare-datatypes ((Slice 0)) (((mk-slice (s-arr Int) (s-off Int) (s-len Int) (s-cap Int)))))",
		"(declare-datatypes ((Iface 0)) (((mk-iface (i-tag Int) (i-val Int)))))",
		"(define-fun godiv ((a Int) (b Int)) Int (ite (>= a 0) (ite (> b 0) (div a b) (- (div a (- b)))) (ite (> b 0) (- (div (- a) b)) (div (- a) (- b)))))",
		"(define-fun gorem ((a Int) (b Int)) Int (- a (* b (godiv a b))))",
		"(define-fun wf-slice ((s Slice)) Bool (and (>= (s-arr s) 0) (>= (s-off s) 0) (>= (s-len s) 0) (<= (s-len s) (s-cap s)) (=> (= (s-arr s) 0) (= (s-cap s) 0))))",
	)
	s.typeByID = append(s.typeByID, nil) // id 0 = nil interface
	return s
}

func mangle(x string) string {
	x = strings.NewReplacer("|", "!", "\\", "!", "github.com/crewjam/saml", "saml", "github.com/", "").Replace(x)
	return x
}

func q(x string) string { return "|" + mangle(x) + "|" }

func isTime(t types.Type) bool {
	if n, ok := t.(*types.Named); ok {
		o := n.Obj()
		if o.Pkg() != nil && o.Pkg().Path() == "time" && o.Name() == "Time" {
			return true
		}
	}
	// named types defined as time.Time (type RelaxedTime time.Time) share its representation
	if st, ok := t.Underlying().(*types.Struct); ok && st.NumFields() == 3 &&
		st.Field(0).Name() == "wall" && st.Field(1).Name() == "ext" && st.Field(2).Name() == "loc" {
		return true
	}
	return false
}

// typeKey is the identity used for heaps: two types with the same key share a heap.
func (s *Sorts) typeKey(t types.Type) string {
	if isTime(t) {
		return "time.Time"
	}
	switch u := t.Underlying().(type) {
	case *types.Struct:
		return structKey(u)
	case *types.Basic:
		return s.sortOf(t)
	case *types.Pointer:
		return "ptr"
	case *types.Slice:
		return "Slice"
	case *types.Interface:
		return "Iface"
	case *types.Map:
		return "map"
	case *types.Signature:
		return "func"
	case *types.Chan:
		return "chan"
	case *types.Array:
		return fmt.Sprintf("arr[%s]", s.typeKey(u.Elem()))
	}
	return "T:" + t.String()
}

func (s *Sorts) structName(u *types.Struct, n *types.Named) string {
	key := structKey(u)
	if name, ok := s.structs[key]; ok {
		return name
	}
	var name string
	if n != nil {
		name = n.Obj().Name()
		if n.Obj().Pkg() != nil {
			name = n.Obj().Pkg().Name() + "." + name
		}
	} else {
		name = "anon"
	}
	s.n++
	name = fmt.Sprintf("%s:%s", key, name)
	s.structs[key] = name
	// declare field sorts first
	var fs []string
	var parts []string
	for i := 0; i < u.NumFields(); i++ {
		fsort := s.sortOf(u.Field(i).Type())
		fn := fmt.Sprintf("%s.%d.%s", name, i, u.Field(i).Name())
		fs = append(fs, q(fn))
		parts = append(parts, fmt.Sprintf("(%s %s)", q(fn), fsort))
	}
	s.fields[name] = fs
	if len(parts) == 0 {
		s.decls = append(s.decls, fmt.Sprintf("(declare-datatypes ((%s 0)) (((%s))))", q(name), q("mk:"+name)))
	} else {
		s.decls = append(s.decls, fmt.Sprintf("(declare-datatypes ((%s 0)) (((%s %s))))", q(name), q("mk:"+name), strings.Join(parts, " ")))
	}
	return name
}

func (s *Sorts) sortOf(t types.Type) string {
	if isTime(t) {
		return "Int"
	}
	switch u := t.Underlying().(type) {
	case *types.Basic:
		switch {
		case u.Info()&types.IsBoolean != 0:
			return "Bool"
		case u.Info()&types.IsInteger != 0:
			return "Int"
		case u.Info()&types.IsFloat != 0:
			return "Real"
		case u.Info()&types.IsString != 0:
			return "String"
		case u.Kind() == types.UnsafePointer:
			return "Int"
		case u.Kind() == types.UntypedNil:
			return "Int"
		}
		return "Int"
	case *types.Pointer, *types.Signature, *types.Chan, *types.Map:
		return "Int"
	case *types.Slice:
		return "Slice"
	case *types.Interface:
		return "Iface"
	case *types.Struct:
		n, _ := t.(*types.Named)
		return q(s.structName(u, n))
	case *types.Array:
		return fmt.Sprintf("(Array Int %s)", s.sortOf(u.Elem()))
	case *types.Tuple:
		return "TUPLE"
	}
	return "Int"
}

func (s *Sorts) zero(t types.Type) string {
	if isTime(t) {
		return "0"
	}
	switch u := t.Underlying().(type) {
	case *types.Basic:
		switch {
		case u.Info()&types.IsBoolean != 0:
			return "false"
		case u.Info()&types.IsFloat != 0:
			return "0.0"
		case u.Info()&types.IsString != 0:
			return "\"\""
		}
		return "0"
	case *types.Slice:
		return "(mk-slice 0 0 0 0)"
	case *types.Interface:
		return "(mk-iface 0 0)"
	case *types.Struct:
		n, _ := t.(*types.Named)
		name := s.structName(u, n)
		if u.NumFields() == 0 {
			return q("mk:" + name)
		}
		var parts []string
		for i := 0; i < u.NumFields(); i++ {
			parts = append(parts, s.zero(u.Field(i).Type()))
		}
		return fmt.Sprintf("(%s %s)", q("mk:"+name), strings.Join(parts, " "))
	case *types.Array:
		return fmt.Sprintf("((as const %s) %s)", s.sortOf(t), s.zero(u.Elem()))
	}
	return "0"
}

// fieldSel returns the accessor symbol for field i of struct type t.
func (s *Sorts) fieldSel(t types.Type, i int) string {
	u := t.Underlying().(*types.Struct)
	n, _ := t.(*types.Named)
	name := s.structName(u, n)
	return s.fields[name][i]
}

// mkStruct builds a constructor application.
func (s *Sorts) mkStruct(t types.Type, vals []string) string {
	u := t.Underlying().(*types.Struct)
	n, _ := t.(*types.Named)
	name := s.structName(u, n)
	if len(vals) == 0 {
		return q("mk:" + name)
	}
	return fmt.Sprintf("(%s %s)", q("mk:"+name), strings.Join(vals, " "))
}

// updField returns the struct term with field i replaced.
func (s *Sorts) updField(t types.Type, term string, i int, v string) string {
	u := t.Underlying().(*types.Struct)
	vals := make([]string, u.NumFields())
	for j := range vals {
		if j == i {
			vals[j] = v
		} else {
			vals[j] = fmt.Sprintf("(%s %s)", s.fieldSel(t, j), term)
		}
	}
	return s.mkStruct(t, vals)
}

// typeID returns a stable small integer for a dynamic type (interface tag).
func (s *Sorts) typeID(t types.Type) int {
	k := t.String()
	if id, ok := s.typeIDs[k]; ok {
		return id
	}
	id := len(s.typeByID)
	s.typeIDs[k] = id
	s.typeByID = append(s.typeByID, t)
	return id
}

// uf declares an uninterpreted function once.
func (s *Sorts) uf(name string, args []string, res string) string {
	qn := q(name)
	if !s.ufs[qn] {
		s.ufs[qn] = true
		s.decls = append(s.decls, fmt.Sprintf("(declare-fun %s (%s) %s)", qn, strings.Join(args, " "), res))
	}
	return qn
}

// wf returns a shallow well-formedness condition for a value of type t (no pointer chasing), or "".
func (s *Sorts) wf(t types.Type, term string) string {
	var conds []string
	s.wfRec(t, term, &conds, 0)
	if len(conds) == 0 {
		return ""
	}
	sort.Strings(conds)
	if len(conds) == 1 {
		return conds[0]
	}
	return "(and " + strings.Join(conds, " ") + ")"
}

func (s *Sorts) wfRec(t types.Type, term string, out *[]string, depth int) {
	if depth > 6 || isTime(t) {
		return
	}
	switch u := t.Underlying().(type) {
	case *types.Basic:
		switch u.Kind() {
		case types.Uint8:
			*out = append(*out, fmt.Sprintf("(and (<= 0 %s) (<= %s 255))", term, term))
		case types.Uint, types.Uint16, types.Uint32, types.Uint64, types.Uintptr:
			*out = append(*out, fmt.Sprintf("(<= 0 %s)", term))
		}
	case *types.Slice:
		*out = append(*out, fmt.Sprintf("(wf-slice %s)", term))
	case *types.Pointer, *types.Map, *types.Signature, *types.Chan:
		*out = append(*out, fmt.Sprintf("(>= %s 0)", term))
	case *types.Interface:
		*out = append(*out, fmt.Sprintf("(and (>= (i-tag %s) 0) (=> (= (i-tag %s) 0) (= (i-val %s) 0)))", term, term, term))
	case *types.Struct:
		for i := 0; i < u.NumFields(); i++ {
			s.wfRec(u.Field(i).Type(), fmt.Sprintf("(%s %s)", s.fieldSel(t, i), term), out, depth+1)
		}
	}
}

func smtString(x string) string {
	var b strings.Builder
	b.WriteByte('"')
	for _, r := range x {
		switch {
		case r == '"':
			b.WriteString("\"\"")
		case r == '\\':
			b.WriteString("\\u{5c}")
		case r >= 32 && r < 127:
			b.WriteRune(r)
		default:
			fmt.Fprintf(&b, "\\u{%x}", r)
		}
	}
	b.WriteByte('"')
	return b.String()
}

func smtInt(v int64) string {
	if v < 0 {
		return fmt.Sprintf("(- %d)", -v)
	}
	return fmt.Sprintf("%d", v)
}

func and(xs ...string) string {
	var ys []string
	for _, x := range xs {
		if x == "" || x == "true" {
			continue
		}
		if x == "false" {
			return "false"
		}
		ys = append(ys, x)
	}
	switch len(ys) {
	case 0:
		return "true"
	case 1:
		return ys[0]
	}
	return "(and " + strings.Join(ys, " ") + ")"
}

func or(xs ...string) string {
	var ys []string
	for _, x := range xs {
		if x == "" || x == "false" {
			continue
		}
		if x == "true" {
			return "true"
		}
		ys = append(ys, x)
	}
	switch len(ys) {
	case 0:
		return "false"
	case 1:
		return ys[0]
	}
	return "(or " + strings.Join(ys, " ") + ")"
}

func not(x string) string {
	switch x {
	case "true":
		return "false"
	case "false":
		return "true"
	}
	if strings.HasPrefix(x, "(not ") && balanced(x[5:len(x)-1]) {
		return x[5 : len(x)-1]
	}
	return "(not " + x + ")"
}

func balanced(x string) bool {
	d := 0
	inq, inbar := false, false
	for i := 0; i < len(x); i++ {
		c := x[i]
		switch {
		case inq:
			if c == '"' {
				inq = false
			}
		case inbar:
			if c == '|' {
				inbar = false
			}
		case c == '"':
			inq = true
		case c == '|':
			inbar = true
		case c == '(':
			d++
		case c == ')':
			d--
			if d < 0 {
				return false
			}
			if d == 0 && i != len(x)-1 {
				return false
			}
		case c == ' ' && d == 0:
			return false
		}
	}
	return d == 0
}

func implies(a, b string) string {
	if a == "true" {
		return b
	}
	if a == "false" || b == "true" {
		return "true"
	}
	return "(=> " + a + " " + b + ")"
}

func ite(c, a, b string) string {
	if c == "true" {
		return a
	}
	if c == "false" {
		return b
	}
	if a == b {
		return a
	}
	// boolean short-circuit shapes
	switch {
	case b == "false" && a == "true":
		return c
	case b == "false":
		return and(c, a)
	case a == "true":
		return or(c, b)
	case a == "false" && b == "true":
		return not(c)
	case a == "false":
		return and(not(c), b)
	case b == "true":
		return or(not(c), a)
	}
	return "(ite " + c + " " + a + " " + b + ")"
}

func eq(a, b string) string {
	if a == b {
		return "true"
	}
	return "(= " + a + " " + b + ")"
}


// atFn returns the element-access function for slices of element type t:
// (at e s i) = e[arr(s)][off(s)+i], introduced by a definitional axiom whose trigger is the
// application itself, so that quantified specifications over s[k] have a usable pattern.
func (s *Sorts) atFn(t types.Type) string {
	key := s.typeKey(t)
	name := q("at:" + key)
	if !s.ufs[name] {
		s.ufs[name] = true
		es := s.sortOf(t)
		s.atAxioms = append(s.atAxioms,
			fmt.Sprintf("(declare-fun %s ((Array Int %s) Slice Int) %s)\n(assert (forall ((e (Array Int %s)) (s Slice) (i Int)) (! (= (%s e s i) (select e (+ (s-off s) i))) :pattern ((%s e s i)))))", name, es, es, es, name, name))
		s.atMacros = append(s.atMacros,
			fmt.Sprintf("(define-fun %s ((e (Array Int %s)) (s Slice) (i Int)) %s (select e (+ (s-off s) i)))", name, es, es))
	}
	return name
}

package main

import (
	"fmt"
	"go/constant"
	"go/token"
	"go/types"
	"sort"
	"strings"

	"golang.org/x/tools/go/ssa"
)

// ---------------------------------------------------------------------------
// Values, l-values, state

type lvKind int

const (
	lvCell lvKind = iota // a named cell (local alloc, global)
	lvHeap               // H:key[ref]
	lvElem               // E:key[arr][idx]
	lvPure               // a specification-local variable (Go-side cell, never in the SMT state)
)

type pathEl struct {
	field int        // >=0: struct field
	idx   string     // array index term when field < 0
	cont  types.Type // container type at this step
}

type LVal struct {
	kind  lvKind
	name  string // heap / cell name ("H:..", "E:..", "C:..", "G:..")
	ref   string
	idx   string
	rootT types.Type
	path  []pathEl
	typ   types.Type
	sl    string // lvElem: the slice term and the index within it (for trigger-friendly reads)
	si    string
	pure  *string
	pval  **Val // for pure cells: the full Go-side value last stored (keeps function identity for closures)
}

type Val struct {
	t        string
	lv       *LVal
	tuple    []*Val
	boxed    *Val
	btyp     types.Type
	fn       *ssa.Function
	bindings []*Val
	mapFrozen   bool   // the map held in this location never has its entries' objects modified (declared field invariant)
	frozenIn    string // this pointer was read from a frozen registry: the presence term of that lookup
	guardObj    string // the object whose guarded field this address is
	sharedObj   string // this address lies inside an object of a `sharedconfig` type, outside its guarded fields: the object
	mapDistinct bool // the map held in this location keeps one value object per key (declared field invariant)
	mapNonNil bool  // the map held in this location stores only non-nil values (declared field invariant)
	guard    string // lock identity that must be held to use this location / map (guardedby)
}

type State struct {
	h     map[string]string
	alloc string
}

func (s *State) clone() *State {
	n := &State{h: make(map[string]string, len(s.h)), alloc: s.alloc}
	for k, v := range s.h {
		n.h[k] = v
	}
	return n
}

// ---------------------------------------------------------------------------
// Unit: one verification unit (a top-level function and everything inlined into it)

type cmdKind int

const (
	cmdDecl cmdKind = iota
	cmdAssume
	cmdOblig
)

type Cmd struct {
	kind cmdKind
	text string
	alt  string // text used instead in the quantifier-light (model finding) variant of the query
	ob   *Obligation
}

type Obligation struct {
	Unchecked bool // not part of the running check (filtered out by property tag / safety switch): never assumed by later queries
	Name   string   // stable name: func#kind:detail
	Kind   string   // nil, idx, slice, typeassert, panic, ensures, inv-init, inv-step, pre, assert, div0, mapwrite
	Tags   []string // property tags
	Guard  string   // reach condition
	Cond   string   // must hold under guard
	Pos    string
	cmdIdx int
	Unit   *Unit
	Clause string
	// results
	Result string // unsat(discharged) | sat | unknown | timeout
	Solver string
	Ms     int64
	Model  string
	Canary bool
	SpecFn string // synthesised Go function of the clause (ensures obligations): used by the replay
	Short  bool // short solver budget (obligations recorded as known findings)
}

type Unit struct {
	eng         *Engine
	sorts       *Sorts
	fn          *ssa.Function
	cmds        []Cmd
	obs         []*Obligation
	nfresh      int
	heapSort    map[string]string
	initHeap    map[string]string
	obNames     map[string]int
	abstracted  map[string]int
	externsUsed map[string]bool
	defaultExt  map[string]bool
	dynCalls    map[string]bool
	warnings    []string
	unsupported []string
	values      map[string]string // interesting named terms for model readout
	inlineStack []*ssa.Function
	contractsUsed map[string]bool
	valueTerms  []string
	valueNames  []string
	valueIdx    []int
	assertsSeen map[string]bool
	nonNil      map[string]bool
	axiomsUsed  []string
	globalInvsUsed []string
	alloc0      string
	locksUsed   bool
	servesRequest bool // the unit has a http.ResponseWriter or *http.Request parameter: it runs once per request, concurrently
	frozenHeaps   map[string]*types.Map // pointee heaps of "frozen" registries -> the registry's map type
	rebinds       []string // clause locals bound by type after a rename, anchors and invariants found in inlined helpers (reported in the evidence)
	globalAddr    map[string]string // addresses of package variables whose address was taken
	newLoopAt     int      // 1 + position in the command stream of the first new loop without invariant
	newAccAt      int      // ... of the first loop that carries a new accumulator (only inconclusive answers are undecided after it)
	newLoops      []string
	calleeStaleAt int      // 1 + position in the command stream of the first call whose postcondition could not be assumed
	calleeStale   []string // postconditions of callees that could not be assumed because they no longer type-check
	preStale      bool     // a precondition of the unit's contract could not be evaluated: the body was verified without it
	staleClauses  []string // clauses that no longer type-check against the code: dropped, undecided (reported)
	distinctHeaps map[string]string // map-value heaps of "distinct" registries -> key sort
	pendingMapWF  [][2]string       // heap versions (term, key sort) whose stored pointers still need the older-than-alloc fact
}

func (u *Unit) fresh(prefix string) string {
	u.nfresh++
	return q(fmt.Sprintf("%s!%d", prefix, u.nfresh))
}

func (u *Unit) declare(prefix, sort string) string {
	n := u.fresh(prefix)
	u.cmds = append(u.cmds, Cmd{kind: cmdDecl, text: fmt.Sprintf("(declare-const %s %s)", n, sort)})
	return n
}

func (u *Unit) define(prefix, sort, term string) string {
	if len(term) < 24 && !strings.Contains(term, " ") {
		return term
	}
	n := u.fresh(prefix)
	u.cmds = append(u.cmds, Cmd{kind: cmdDecl, text: fmt.Sprintf("(define-fun %s () %s %s)", n, sort, term)})
	return n
}

func (u *Unit) assume(guard, cond string) {
	if cond == "" || cond == "true" {
		return
	}
	u.cmds = append(u.cmds, Cmd{kind: cmdAssume, text: fmt.Sprintf("(assert %s)", implies(guard, cond))})
}

func (u *Unit) oblige(name, kind string, tags []string, guard, cond, pos, clause string) *Obligation {
	if cond == "true" || guard == "false" {
		if kind == "assert" && cond == "true" && u.eng != nil {
			// trivially true at this site - but the site exists: remembered for the deleted-anchor rule
			u.eng.trivialAnchors = append(u.eng.trivialAnchors, name)
		}
		return nil
	}
	// stable unique names
	base := name
	if n := u.obNames[base]; n > 0 {
		name = fmt.Sprintf("%s~%d", base, n+1)
	}
	u.obNames[base]++
	ob := &Obligation{Name: name, Kind: kind, Tags: tags, Guard: guard, Cond: cond, Pos: pos, Unit: u, Clause: clause}
	ob.cmdIdx = len(u.cmds)
	u.cmds = append(u.cmds, Cmd{kind: cmdOblig, ob: ob})
	u.obs = append(u.obs, ob)
	return ob
}

func (u *Unit) abstract(what string) { u.abstracted[what]++ }

func (u *Unit) warn(format string, a ...interface{}) {
	u.warnings = append(u.warnings, fmt.Sprintf(format, a...))
}

func (u *Unit) unsupport(format string, a ...interface{}) {
	u.unsupported = append(u.unsupported, fmt.Sprintf(format, a...))
}

func (u *Unit) heapGet(st *State, name, sort string) string {
	if t, ok := st.h[name]; ok {
		return t
	}
	if t, ok := u.initHeap[name]; ok {
		st.h[name] = t
		return t
	}
	u.heapSort[name] = sort
	t := u.declare(name+"@0", sort)
	u.initHeap[name] = t
	st.h[name] = t
	if ks, ok := u.distinctHeaps[name]; ok && u.alloc0 != "" {
		m, k := u.fresh("m"), u.fresh("k")
		u.assume("true", fmt.Sprintf("(forall ((%s Int) (%s %s)) (! (< (select (select %s %s) %s) %s) :pattern ((select (select %s %s) %s))))",
			m, k, ks, t, m, k, u.alloc0, t, m, k))
	}
	return t
}

func (u *Unit) heapSet(st *State, name, sort, term string) {
	u.heapSort[name] = sort
	if _, ok := u.initHeap[name]; !ok {
		// make sure an initial version exists so that merges are well defined
		u.heapGet(st, name, sort)
	}
	st.h[name] = u.define(name, sort, term)
}

// ---------------------------------------------------------------------------
// l-value read / write

func (u *Unit) lvRootSort(lv *LVal) string {
	es := u.sorts.sortOf(lv.rootT)
	switch lv.kind {
	case lvCell:
		return es
	case lvHeap:
		return "(Array Int " + es + ")"
	default:
		return "(Array Int (Array Int " + es + "))"
	}
}

func (u *Unit) readRoot(st *State, lv *LVal) string {
	if lv.kind == lvPure {
		return *lv.pure
	}
	h := u.heapGet(st, lv.name, u.lvRootSort(lv))
	switch lv.kind {
	case lvCell:
		return h
	case lvHeap:
		return fmt.Sprintf("(select %s %s)", h, lv.ref)
	default:
		if lv.sl != "" {
			return fmt.Sprintf("(%s (select %s (s-arr %s)) %s %s)", u.sorts.atFn(lv.rootT), h, lv.sl, lv.sl, lv.si)
		}
		return fmt.Sprintf("(select (select %s %s) %s)", h, lv.ref, lv.idx)
	}
}

func (u *Unit) read(st *State, lv *LVal) string {
	t := u.readRoot(st, lv)
	for _, p := range lv.path {
		if p.field >= 0 {
			t = fmt.Sprintf("(%s %s)", u.sorts.fieldSel(p.cont, p.field), t)
		} else {
			t = fmt.Sprintf("(select %s %s)", t, p.idx)
		}
	}
	return t
}

func (u *Unit) updPath(cur string, path []pathEl, v string) string {
	if len(path) == 0 {
		return v
	}
	p := path[0]
	if p.field >= 0 {
		inner := fmt.Sprintf("(%s %s)", u.sorts.fieldSel(p.cont, p.field), cur)
		return u.sorts.updField(p.cont, cur, p.field, u.updPath(inner, path[1:], v))
	}
	inner := fmt.Sprintf("(select %s %s)", cur, p.idx)
	return fmt.Sprintf("(store %s %s %s)", cur, p.idx, u.updPath(inner, path[1:], v))
}

func (u *Unit) write(st *State, lv *LVal, v string) {
	if lv.kind == lvPure {
		*lv.pure = u.updPath(*lv.pure, lv.path, v)
		return
	}
	rs := u.lvRootSort(lv)
	h := u.heapGet(st, lv.name, rs)
	var cur string
	if len(lv.path) > 0 {
		cur = u.define("cur", u.sorts.sortOf(lv.rootT), u.readRoot(st, lv))
	}
	nv := u.updPath(cur, lv.path, v)
	switch lv.kind {
	case lvCell:
		u.heapSet(st, lv.name, rs, nv)
	case lvHeap:
		u.heapSet(st, lv.name, rs, fmt.Sprintf("(store %s %s %s)", h, lv.ref, nv))
	default:
		u.heapSet(st, lv.name, rs, fmt.Sprintf("(store %s %s (store (select %s %s) %s %s))", h, lv.ref, h, lv.ref, lv.idx, nv))
	}
}

func (lv *LVal) extendField(i int, cont, ft types.Type) *LVal {
	n := *lv
	n.path = append(append([]pathEl{}, lv.path...), pathEl{field: i, cont: cont})
	n.typ = ft
	return &n
}

func (lv *LVal) extendIndex(idx string, cont, et types.Type) *LVal {
	n := *lv
	n.path = append(append([]pathEl{}, lv.path...), pathEl{field: -1, idx: idx, cont: cont})
	n.typ = et
	return &n
}

// ---------------------------------------------------------------------------
// frames

type loopInfo struct {
	header  *ssa.BasicBlock
	body    map[int]bool
	backs   []*ssa.BasicBlock
	ordinal int
	precise []preciseTarget
	locksAtHead string // the lock ghost state at the loop head (every iteration must come back with the same)
}

type retInfo struct {
	reach string
	vals  []*Val
	st    *State
	pos   string
	tpos  token.Pos
}

type deferred struct {
	instr *ssa.Defer
	block *ssa.BasicBlock
}

type frame struct {
	u        *Unit
	fn       *ssa.Function
	vals     map[ssa.Value]*Val
	reach    map[int]string
	out      map[int]*State
	edge     map[[2]int]string // pred index, succ position index → cond
	depth    int
	pure     bool
	prefix   string
	loops    map[int]*loopInfo // by header index
	rets     []retInfo
	defers   []deferred
	params   []*Val
	entrySt  *State
	contract *Contract
	top      bool
	oldVals  map[ssa.Value]*Val // for old() evaluation in specs (pre-state run)
	preState *State
	binders  int
	cellSeq  int
	lets     *[][2]string // let bindings of the enclosing quantifier body
	parent   *frame          // the frame this one is inlined into (nil for the unit's own function)
	via      ssa.Instruction // the call instruction of parent that was inlined
	done     []*frame        // inlined callees of this frame that have returned
	cur      ssa.Instruction // instruction being executed
	pendingNewLoop bool
	loopMapDone    bool
	loopMapping    map[int]int // recorded loop ordinal -> current loop ordinal, when the loop structure changed
}

func (fr *frame) obName(kind, detail string) string {
	return fmt.Sprintf("%s%s#%s:%s", fr.prefix, funcName(fr.fn), kind, detail)
}

func funcName(f *ssa.Function) string {
	s := f.String()
	s = strings.Replace(s, "github.com/crewjam/saml/", "", -1)
	s = strings.Replace(s, "github.com/crewjam/saml", "saml", -1)
	return s
}

func (fr *frame) pos(p token.Pos) string {
	if !p.IsValid() {
		return ""
	}
	pp := fr.u.eng.L.Prog.Fset.Position(p)
	return fmt.Sprintf("%s:%d", strings.TrimPrefix(pp.Filename, repoDir+"/"), pp.Line)
}

// describe produces a stable, line-free description of an SSA value for obligation names.
func (fr *frame) describe(v ssa.Value, depth int) string {
	if depth > 6 {
		return "…"
	}
	switch x := v.(type) {
	case *ssa.Parameter:
		return x.Name()
	case *ssa.FreeVar:
		return x.Name()
	case *ssa.Global:
		return x.Name()
	case *ssa.Const:
		if x.Value == nil {
			return "nil"
		}
		s := x.Value.String()
		if len(s) > 20 {
			s = s[:20]
		}
		return s
	case *ssa.Alloc:
		if x.Comment != "" {
			return x.Comment
		}
		return "new"
	case *ssa.FieldAddr:
		st := x.X.Type().Underlying().(*types.Pointer).Elem().Underlying().(*types.Struct)
		return fr.describe(x.X, depth+1) + "." + st.Field(x.Field).Name()
	case *ssa.Field:
		st := x.X.Type().Underlying().(*types.Struct)
		return fr.describe(x.X, depth+1) + "." + st.Field(x.Field).Name()
	case *ssa.IndexAddr:
		return fr.describe(x.X, depth+1) + "[" + fr.describe(x.Index, depth+1) + "]"
	case *ssa.Index:
		return fr.describe(x.X, depth+1) + "[" + fr.describe(x.Index, depth+1) + "]"
	case *ssa.UnOp:
		if x.Op == token.MUL {
			return fr.describe(x.X, depth+1)
		}
		return x.Op.String() + fr.describe(x.X, depth+1)
	case *ssa.Phi:
		if x.Comment != "" {
			return x.Comment
		}
		return "phi"
	case *ssa.Call:
		if b, ok := x.Common().Value.(*ssa.Builtin); ok {
			var as []string
			for _, a := range x.Common().Args {
				as = append(as, fr.describe(a, depth+1))
			}
			return b.Name() + "(" + strings.Join(as, ",") + ")"
		}
		if f := x.Common().StaticCallee(); f != nil {
			return f.Name() + "()"
		}
		if x.Common().IsInvoke() {
			return fr.describe(x.Common().Value, depth+1) + "." + x.Common().Method.Name() + "()"
		}
		return "call()"
	case *ssa.Extract:
		return fr.describe(x.Tuple, depth+1) + fmt.Sprintf("#%d", x.Index)
	case *ssa.BinOp:
		return fr.describe(x.X, depth+1) + x.Op.String() + fr.describe(x.Y, depth+1)
	case *ssa.Slice:
		return fr.describe(x.X, depth+1) + "[:]"
	case *ssa.TypeAssert:
		return fr.describe(x.X, depth+1) + ".(" + types.TypeString(x.AssertedType, func(p *types.Package) string { return p.Name() }) + ")"
	case *ssa.Convert:
		return fr.describe(x.X, depth+1)
	case *ssa.ChangeType:
		return fr.describe(x.X, depth+1)
	case *ssa.MakeInterface:
		return fr.describe(x.X, depth+1)
	case *ssa.Lookup:
		return fr.describe(x.X, depth+1) + "[" + fr.describe(x.Index, depth+1) + "]"
	case *ssa.Function:
		return x.Name()
	}
	return v.Name()
}

// ---------------------------------------------------------------------------
// loops / ordering

func (fr *frame) analyse() []*ssa.BasicBlock {
	fn := fr.fn
	fr.loops = map[int]*loopInfo{}
	// back edges
	for _, b := range fn.Blocks {
		for _, s := range b.Succs {
			if s.Dominates(b) {
				li := fr.loops[s.Index]
				if li == nil {
					li = &loopInfo{header: s, body: map[int]bool{s.Index: true}}
					fr.loops[s.Index] = li
				}
				li.backs = append(li.backs, b)
			}
		}
	}
	for _, li := range fr.loops {
		// body: blocks that reach a back-edge source without passing the header
		var work []*ssa.BasicBlock
		for _, b := range li.backs {
			if !li.body[b.Index] {
				li.body[b.Index] = true
				work = append(work, b)
			}
		}
		for len(work) > 0 {
			b := work[len(work)-1]
			work = work[:len(work)-1]
			for _, p := range b.Preds {
				if !li.body[p.Index] {
					li.body[p.Index] = true
					work = append(work, p)
				}
			}
		}
	}
	// ordinals by source position of header
	var hs []*loopInfo
	for _, li := range fr.loops {
		hs = append(hs, li)
	}
	sort.Slice(hs, func(i, j int) bool { return loopPos(hs[i]) < loopPos(hs[j]) })
	for i, li := range hs {
		li.ordinal = i + 1
	}
	// reverse postorder ignoring back edges
	seen := map[int]bool{}
	var post []*ssa.BasicBlock
	var dfs func(b *ssa.BasicBlock)
	dfs = func(b *ssa.BasicBlock) {
		seen[b.Index] = true
		for _, s := range b.Succs {
			if s.Dominates(b) { // back edge
				continue
			}
			if !seen[s.Index] {
				dfs(s)
			}
		}
		post = append(post, b)
	}
	if len(fn.Blocks) > 0 {
		dfs(fn.Blocks[0])
	}
	for i, j := 0, len(post)-1; i < j; i, j = i+1, j-1 {
		post[i], post[j] = post[j], post[i]
	}
	return post
}

func loopPos(li *loopInfo) token.Pos {
	best := token.Pos(0)
	consider := func(p token.Pos) {
		if p.IsValid() && (best == 0 || p < best) {
			best = p
		}
	}
	for _, in := range li.header.Instrs {
		consider(in.Pos())
	}
	if best == 0 {
		// fall back to any instruction in the body
		for _, b := range li.header.Parent().Blocks {
			if li.body[b.Index] {
				for _, in := range b.Instrs {
					consider(in.Pos())
				}
			}
		}
	}
	return best
}

// ---------------------------------------------------------------------------
// running a function body

func (u *Unit) newFrame(fn *ssa.Function, depth int, pure bool, prefix string) *frame {
	return &frame{u: u, fn: fn, vals: map[ssa.Value]*Val{}, reach: map[int]string{}, out: map[int]*State{},
		edge: map[[2]int]string{}, depth: depth, pure: pure, prefix: prefix}
}

func (fr *frame) def(prefix string, t types.Type, term string) string {
	return fr.defSort(prefix, fr.u.sorts.sortOf(t), term)
}

// defSort names a term: by a top-level define-fun outside quantifier bodies, by a let binding inside.
func (fr *frame) defSort(prefix, sort, term string) string {
	if fr.binders > 0 {
		if fr.lets == nil || (len(term) < 40 && !strings.Contains(term, "(ite")) {
			return term
		}
		n := fr.u.fresh("let." + prefix)
		*fr.lets = append(*fr.lets, [2]string{n, term})
		return n
	}
	return fr.u.define(prefix, sort, term)
}

// run executes fn with the given arguments starting in state st under reach condition r0.
// Returns merged results, normal-exit reach condition and exit state.
func (fr *frame) run(args []*Val, bindings []*Val, st *State, r0 string) ([]*Val, string, *State) {
	fn := fr.fn
	u := fr.u
	if len(fn.Blocks) == 0 {
		panic("run: function without body: " + fn.String())
	}
	fr.params = args
	fr.entrySt = st
	for i, p := range fn.Params {
		if i < len(args) {
			fr.vals[p] = args[i]
		}
	}
	for i, fv := range fn.FreeVars {
		if i < len(bindings) {
			fr.vals[fv] = bindings[i]
		} else {
			fr.vals[fv] = fr.unconstrained(fv.Type(), "freevar", st, r0)
		}
	}
	order := fr.analyse()
	for _, b := range order {
		// entry state and reach
		var reach string
		var cur *State
		li := fr.loops[b.Index]
		if b.Index == 0 {
			reach = r0
			cur = st.clone()
		} else {
			var conds []string
			var sts []*State
			var ecs []string
			for _, p := range b.Preds {
				if b.Dominates(p) && li != nil { // back edge: handled at source
					continue
				}
				if _, ok := fr.out[p.Index]; !ok {
					continue // unreachable / not executed predecessor
				}
				ec := fr.edgeCond(p, b)
				conds = append(conds, ec)
				ecs = append(ecs, ec)
				sts = append(sts, fr.out[p.Index])
			}
			if len(conds) == 0 {
				continue
			}
			reach = fr.defSort("reach", "Bool", or(conds...))
			cur = fr.mergeStates(sts, ecs)
		}
		fr.reach[b.Index] = reach
		if li != nil {
			cur = fr.enterLoop(li, cur, reach)
		}
		fr.execBlock(b, cur, reach)
	}
	// merge returns
	if len(fr.rets) == 0 {
		return nil, "false", st
	}
	var conds []string
	var sts []*State
	for _, r := range fr.rets {
		conds = append(conds, r.reach)
		sts = append(sts, r.st)
	}
	exitReach := fr.defSort("exit", "Bool", or(conds...))
	exitSt := fr.mergeStates(sts, conds)
	nres := fn.Signature.Results().Len()
	results := make([]*Val, nres)
	for i := 0; i < nres; i++ {
		rt := fn.Signature.Results().At(i).Type()
		term := fr.valTerm(fr.rets[len(fr.rets)-1].vals[i], exitSt)
		for k := len(fr.rets) - 2; k >= 0; k-- {
			term = ite(fr.rets[k].reach, fr.valTerm(fr.rets[k].vals[i], exitSt), term)
		}
		results[i] = &Val{t: fr.def("ret", rt, term)}
		// keep boxed info when there is a single return
		if len(fr.rets) == 1 {
			results[i].boxed = fr.rets[0].vals[i].boxed
			results[i].btyp = fr.rets[0].vals[i].btyp
			results[i].fn = fr.rets[0].vals[i].fn
			results[i].bindings = fr.rets[0].vals[i].bindings
			if fr.rets[0].vals[i].lv != nil && fr.rets[0].vals[i].t == "" {
				results[i].lv = fr.rets[0].vals[i].lv
			}
		}
	}
	_ = u
	return results, exitReach, exitSt
}

func (fr *frame) edgeCond(p, b *ssa.BasicBlock) string {
	r := fr.reach[p.Index]
	if len(p.Instrs) == 0 {
		return r
	}
	if iff, ok := p.Instrs[len(p.Instrs)-1].(*ssa.If); ok {
		c := fr.valOf(iff.Cond).t
		if p.Succs[0] == b && p.Succs[1] == b {
			return r
		}
		if p.Succs[0] == b {
			return and(r, c)
		}
		return and(r, not(c))
	}
	return r
}

func (fr *frame) mergeStates(sts []*State, conds []string) *State {
	u := fr.u
	if len(sts) == 1 {
		return sts[0].clone()
	}
	res := &State{h: map[string]string{}}
	names := map[string]bool{}
	for _, s := range sts {
		for k := range s.h {
			names[k] = true
		}
	}
	var keys []string
	for k := range names {
		keys = append(keys, k)
	}
	sort.Strings(keys)
	get := func(s *State, k string) string {
		if t, ok := s.h[k]; ok {
			return t
		}
		return u.initHeap[k]
	}
	for _, k := range keys {
		term := get(sts[len(sts)-1], k)
		for i := len(sts) - 2; i >= 0; i-- {
			term = ite(conds[i], get(sts[i], k), term)
		}
		res.h[k] = fr.defSort(k, u.heapSort[k], term)
	}
	term := sts[len(sts)-1].alloc
	for i := len(sts) - 2; i >= 0; i-- {
		term = ite(conds[i], sts[i].alloc, term)
	}
	res.alloc = fr.defSort("alloc", "Int", term)
	return res
}

// ---------------------------------------------------------------------------
// values

func (fr *frame) valOf(v ssa.Value) *Val {
	if x, ok := fr.vals[v]; ok {
		return x
	}
	u := fr.u
	switch c := v.(type) {
	case *ssa.Const:
		return fr.constVal(c)
	case *ssa.Global:
		name := "G:" + c.Pkg.Pkg.Path() + "." + c.Name()
		et := c.Type().Underlying().(*types.Pointer).Elem()
		if _, seen := u.initHeap[name]; !seen && u.alloc0 != "" {
			// the initial value of a package variable is well-formed and was allocated before the call (also when the
			// first mention is in a specification: the fact is about the initial state, not about the mentioning frame)
			tmp := &State{h: map[string]string{}, alloc: u.alloc0}
			init := u.heapGet(tmp, name, u.sorts.sortOf(et))
			wasPure := fr.pure
			fr.pure = false
			fr.assumeWF(et, init, tmp, "true")
			fr.pure = wasPure
			path := c.Pkg.Pkg.Path()
			if _, isIface := et.Underlying().(*types.Interface); isIface && !(path == modPath || strings.HasPrefix(path, modPath+"/")) &&
				(strings.HasPrefix(c.Name(), "Err") || c.Name() == "EOF") {
				// exported sentinel errors of dependencies are initialised non-nil and never reassigned
				u.assume("true", fmt.Sprintf("(not (= (i-tag %s) 0))", init))
			}
		}
		return &Val{lv: &LVal{kind: lvCell, name: name, rootT: et, typ: et}}
	case *ssa.Function:
		return &Val{t: smtInt(int64(u.eng.funcID(c))), fn: c}
	case *ssa.Builtin:
		return &Val{t: "0"}
	}
	// value defined in a block that was not executed (unreachable) or unsupported
	u.warn("%s: use of undefined value %s (%T)", funcName(fr.fn), v.Name(), v)
	nv := &Val{t: u.declare("undef", u.sorts.sortOf(v.Type()))}
	fr.vals[v] = nv
	return nv
}

func (fr *frame) constVal(c *ssa.Const) *Val {
	s := fr.u.sorts
	t := c.Type()
	if c.Value == nil {
		return &Val{t: s.zero(t)}
	}
	switch u := t.Underlying().(type) {
	case *types.Basic:
		switch {
		case u.Info()&types.IsBoolean != 0:
			if constant.BoolVal(c.Value) {
				return &Val{t: "true"}
			}
			return &Val{t: "false"}
		case u.Info()&types.IsString != 0:
			return &Val{t: smtString(constant.StringVal(c.Value))}
		case u.Info()&types.IsInteger != 0:
			if i, ok := constant.Int64Val(constant.ToInt(c.Value)); ok {
				return &Val{t: smtInt(i)}
			}
			// big unsigned
			return &Val{t: constant.ToInt(c.Value).ExactString()}
		case u.Info()&types.IsFloat != 0:
			f, _ := constant.Float64Val(c.Value)
			r := constant.ToFloat(c.Value)
			if constant.ToInt(r).Kind() == constant.Int {
				if i, ok := constant.Int64Val(constant.ToInt(r)); ok {
					if i < 0 {
						return &Val{t: fmt.Sprintf("(- %d.0)", -i)}
					}
					return &Val{t: fmt.Sprintf("%d.0", i)}
				}
			}
			num, _ := constant.Int64Val(constant.Num(r))
			den, _ := constant.Int64Val(constant.Denom(r))
			if den != 0 && num != 0 {
				if num < 0 {
					return &Val{t: fmt.Sprintf("(- (/ %d.0 %d.0))", -num, den)}
				}
				return &Val{t: fmt.Sprintf("(/ %d.0 %d.0)", num, den)}
			}
			_ = f
			return &Val{t: fr.u.declare("fconst", "Real")}
		}
	}
	return &Val{t: s.zero(t)}
}

// valTerm gives the SMT term of a value; pointers with symbolic addresses are materialised.
func (fr *frame) valTerm(v *Val, st *State) string {
	if v.t != "" {
		return v.t
	}
	if v.lv != nil {
		return fr.ptrTerm(v, st)
	}
	if v.tuple != nil {
		panic("valTerm on tuple")
	}
	return "0"
}

// ptrTerm returns a Ref term for a pointer value.
func (fr *frame) ptrTerm(v *Val, st *State) string {
	if v.t != "" {
		return v.t
	}
	lv := v.lv
	if lv.kind == lvHeap && len(lv.path) == 0 {
		v.t = lv.ref
		return v.t
	}
	// materialise: a fresh object holding a snapshot of the location
	u := fr.u
	if fr.pure {
		// in specs: address identity of interior locations is abstracted by an uninterpreted function
		return "(- 1)"
	}
	if lv.kind == lvHeap && stableInterior(lv) {
		// &x.f where f is the only by-value part of x's type with that type: the address is identified with x's own
		// reference in the heap of f's type (injective, and as old or new as x itself); the contents are a snapshot.
		hl := &LVal{kind: lvHeap, name: "H:" + u.sorts.typeKey(lv.typ), ref: lv.ref, rootT: lv.typ, typ: lv.typ}
		u.write(st, hl, u.read(st, lv))
		u.abstract("interior-pointer-snapshot")
		v.t = lv.ref
		return v.t
	}
	if lv.kind == lvCell && strings.HasPrefix(lv.name, "G:") && len(lv.path) == 0 && u.alloc0 != "" {
		// the address of a package variable: one address per variable, older than the function's entry (the contents
		// seen through it are a snapshot, as for every materialised pointer)
		if u.globalAddr == nil {
			u.globalAddr = map[string]string{}
		}
		ga, ok := u.globalAddr[lv.name]
		if !ok {
			ga = u.declare("addr."+lv.name[2:], "Int")
			u.assume("true", fmt.Sprintf("(and (> %s 0) (< %s %s))", ga, ga, u.alloc0))
			u.globalAddr[lv.name] = ga
		}
		hl := &LVal{kind: lvHeap, name: "H:" + u.sorts.typeKey(lv.typ), ref: ga, rootT: lv.typ, typ: lv.typ}
		u.write(st, hl, u.read(st, lv))
		u.abstract("global-pointer-snapshot")
		v.t = ga
		return ga
	}
	ref := fr.allocRef(st)
	hl := &LVal{kind: lvHeap, name: "H:" + u.sorts.typeKey(lv.typ), ref: ref, rootT: lv.typ, typ: lv.typ}
	u.write(st, hl, u.read(st, lv))
	u.abstract("interior-pointer-materialised")
	v.t = ref
	return ref
}

// stableInterior: the path consists of struct fields only and the addressed type occurs exactly once among the
// by-value parts of the root type.
func stableInterior(lv *LVal) bool {
	for _, p := range lv.path {
		if p.field < 0 {
			return false
		}
	}
	n := 0
	var count func(t types.Type, depth int)
	count = func(t types.Type, depth int) {
		if depth > 6 {
			n += 2
			return
		}
		if st, ok := t.Underlying().(*types.Struct); ok {
			for i := 0; i < st.NumFields(); i++ {
				ft := st.Field(i).Type()
				if types.Identical(ft, lv.typ) {
					n++
				}
				count(ft, depth+1)
			}
		}
	}
	count(lv.rootT, 0)
	return n == 1
}

func (fr *frame) allocRef(st *State) string {
	u := fr.u
	ref := u.define("ref", "Int", st.alloc)
	st.alloc = u.define("alloc", "Int", fmt.Sprintf("(+ %s 1)", st.alloc))
	return ref
}

// ptrLV turns a pointer value into an l-value.
func (fr *frame) ptrLV(v *Val, pt types.Type) *LVal {
	if v.lv != nil {
		return v.lv
	}
	et := pt.Underlying().(*types.Pointer).Elem()
	return &LVal{kind: lvHeap, name: "H:" + fr.u.sorts.typeKey(et), ref: v.t, rootT: et, typ: et}
}

// unconstrained creates a fresh well-formed value of type t.
func (fr *frame) unconstrained(t types.Type, prefix string, st *State, guard string) *Val {
	u := fr.u
	if tup, ok := t.(*types.Tuple); ok {
		v := &Val{}
		for i := 0; i < tup.Len(); i++ {
			v.tuple = append(v.tuple, fr.unconstrained(tup.At(i).Type(), prefix, st, guard))
		}
		return v
	}
	n := u.declare(prefix, u.sorts.sortOf(t))
	fr.assumeWF(t, n, st, guard)
	return &Val{t: n}
}

// assumeWF assumes shallow well-formedness, plus "allocated before now" for references.
func (fr *frame) assumeWF(t types.Type, term string, st *State, guard string) {
	if fr.pure {
		return
	}
	u := fr.u
	if c := u.sorts.wf(t, term); c != "" {
		u.assume(guard, c)
	}
	switch t.Underlying().(type) {
	case *types.Pointer, *types.Map:
		u.assume(guard, fmt.Sprintf("(< %s %s)", term, st.alloc))
	case *types.Slice:
		u.assume(guard, fmt.Sprintf("(< (s-arr %s) %s)", term, st.alloc))
	case *types.Interface:
		u.assume(guard, fmt.Sprintf("(< (i-val %s) %s)", term, st.alloc))
		if n, ok := t.(*types.Named); ok && n.Obj().Pkg() != nil && u.eng.typeInv[n.Obj().Pkg().Path()+"."+n.Obj().Name()] == "nonnilptr" {
			// declared invariant of this interface type: its dynamic values are never typed-nil pointers
			u.assume(guard, fmt.Sprintf("(=> (not (= (i-tag %s) 0)) (not (= (i-val %s) 0)))", term, term))
		}
	}
}

package main

import (
	"go/ast"
	"fmt"
	"go/token"
	"go/types"
	"sort"
	"strings"

	"golang.org/x/tools/go/ssa"
)

func (fr *frame) execBlock(b *ssa.BasicBlock, st *State, reach string) {
	for _, in := range b.Instrs {
		fr.execInstr(in, st, reach, b)
	}
	fr.out[b.Index] = st
	// back edges leaving this block: invariant preservation
	for _, s := range b.Succs {
		if li := fr.loops[s.Index]; li != nil && s.Dominates(b) {
			fr.loopBack(li, b, st)
		}
	}
}

func (fr *frame) nilCheck(v ssa.Value, pv *Val, reach string, pos token.Pos) {
	if fr.pure {
		return
	}
	term := pv.t
	if pv.lv != nil && pv.t == "" && pv.lv.kind == lvHeap && len(pv.lv.path) == 0 {
		term = pv.lv.ref
	}
	if term != "" {
		key := reach + "|" + term
		if fr.u.nonNil[term] || fr.u.nonNil[key] {
			return
		}
		fr.u.nonNil[key] = true // same reach condition: the earlier obligation covers this one
	}
	if pv.lv != nil && pv.t == "" {
		if pv.lv.kind == lvHeap && len(pv.lv.path) == 0 {
			fr.u.oblige(fr.obName("nil", fr.describe(v, 0)), "nil", nil, reach, fmt.Sprintf("(not (= %s 0))", pv.lv.ref), fr.pos(pos), "")
		}
		return // interior / cell addresses are never nil
	}
	fr.u.oblige(fr.obName("nil", fr.describe(v, 0)), "nil", nil, reach, fmt.Sprintf("(not (= %s 0))", pv.t), fr.pos(pos), "")
}

func (fr *frame) execInstr(in ssa.Instruction, st *State, reach string, b *ssa.BasicBlock) {
	u := fr.u
	s := u.sorts
	fr.cur = in
	switch x := in.(type) {
	case *ssa.DebugRef:
		return
	case *ssa.Alloc:
		et := x.Type().Underlying().(*types.Pointer).Elem()
		if fr.pure {
			z := s.zero(et)
			var pv *Val
			fr.vals[x] = &Val{lv: &LVal{kind: lvPure, rootT: et, typ: et, pure: &z, pval: &pv}}
			return
		}
		if !x.Heap {
			fr.cellSeq++
			name := fmt.Sprintf("C:%s%s.%s.%d", fr.prefix, funcName(fr.fn), x.Comment, indexOfLocal(fr.fn, x))
			lv := &LVal{kind: lvCell, name: name, rootT: et, typ: et}
			u.heapSet(st, name, s.sortOf(et), s.zero(et))
			fr.vals[x] = &Val{lv: lv}
			if bn := fr.localBuilder(x); bn != "" {
				u.heapSet(st, bn, "String", "\"\"")
				u.heapSet(st, bn+"#m", "String", "\"\"")
				u.heapSet(st, bn+"#s", "String", "\"\"")
			}
			return
		}
		ref := fr.allocRef(st)
		lv := &LVal{kind: lvHeap, name: "H:" + s.typeKey(et), ref: ref, rootT: et, typ: et}
		u.write(st, lv, s.zero(et))
		fr.vals[x] = &Val{t: ref, lv: lv}
		if name := fr.localBuilder(x); name != "" {
			u.heapSet(st, name, "String", "\"\"")
			u.heapSet(st, name+"#m", "String", "\"\"")
			u.heapSet(st, name+"#s", "String", "\"\"")
		}
	case *ssa.FieldAddr:
		pv := fr.valOf(x.X)
		fr.nilCheck(x.X, pv, reach, x.Pos())
		pt := x.X.Type()
		cont := pt.Underlying().(*types.Pointer).Elem()
		stt := cont.Underlying().(*types.Struct)
		ft := stt.Field(x.Field).Type()
		nv := &Val{lv: fr.ptrLV(pv, pt).extendField(x.Field, cont, ft), frozenIn: pv.frozenIn, sharedObj: pv.sharedObj}
		if n, ok := cont.(*types.Named); ok && n.Obj().Pkg() != nil && !fr.pure {
			tkey := n.Obj().Pkg().Name() + "." + n.Obj().Name()
			if _, guarded := u.eng.guards[tkey+"."+stt.Field(x.Field).Name()]; u.eng.sharedCfg[tkey] && !guarded && pv.t != "" {
				nv.sharedObj = pv.t
			}
			mi := u.eng.mapInv["F:"+n.Obj().Pkg().Name()+"."+n.Obj().Name()+"."+stt.Field(x.Field).Name()]
			if strings.Contains(mi, "nonnil") {
				nv.mapNonNil = true
			}
			if strings.Contains(mi, "frozen") {
				nv.mapFrozen = true
			}
			if strings.Contains(mi, "distinct") {
				nv.mapDistinct = true
			}
			if lockField, ok := u.eng.guards[n.Obj().Pkg().Name()+"."+n.Obj().Name()+"."+stt.Field(x.Field).Name()]; ok {
				for li := 0; li < stt.NumFields(); li++ {
					if stt.Field(li).Name() == lockField {
						lk := &Val{lv: fr.ptrLV(pv, pt).extendField(li, cont, stt.Field(li).Type())}
						nv.guard = u.define("guard", "Int", fr.lockID(lk, st))
						nv.guardObj = pv.t
					}
				}
			}
		}
		fr.vals[x] = nv
	case *ssa.Field:
		sv := fr.valOf(x.X)
		ft := x.X.Type().Underlying().(*types.Struct).Field(x.Field).Type()
		term := fr.def("fld", ft, fmt.Sprintf("(%s %s)", s.fieldSel(x.X.Type(), x.Field), sv.t))
		fr.assumeWF(ft, term, st, reach)
		fr.vals[x] = &Val{t: term}
	case *ssa.IndexAddr:
		xv := fr.valOf(x.X)
		iv := fr.valOf(x.Index).t
		switch xt := x.X.Type().Underlying().(type) {
		case *types.Slice:
			if !fr.pure {
				u.oblige(fr.obName("idx", fr.describe(x, 0)), "idx", nil, reach,
					fmt.Sprintf("(and (<= 0 %s) (< %s (s-len %s)))", iv, iv, xv.t), fr.pos(x.Pos()), "")
			}
			et := xt.Elem()
			fr.vals[x] = &Val{lv: &LVal{kind: lvElem, name: "E:" + s.typeKey(et), ref: fmt.Sprintf("(s-arr %s)", xv.t),
				idx: fr.defSort("ix", "Int", fmt.Sprintf("(+ (s-off %s) %s)", xv.t, iv)), rootT: et, typ: et, sl: xv.t, si: iv}}
		case *types.Pointer:
			at := xt.Elem().Underlying().(*types.Array)
			fr.nilCheck(x.X, xv, reach, x.Pos())
			if !fr.pure {
				u.oblige(fr.obName("idx", fr.describe(x, 0)), "idx", nil, reach,
					fmt.Sprintf("(and (<= 0 %s) (< %s %d))", iv, iv, at.Len()), fr.pos(x.Pos()), "")
			}
			fr.vals[x] = &Val{lv: fr.ptrLV(xv, x.X.Type()).extendIndex(iv, xt.Elem(), at.Elem())}
		default:
			u.unsupport("%s: IndexAddr on %s", funcName(fr.fn), x.X.Type())
		}
	case *ssa.Index:
		xv := fr.valOf(x.X)
		iv := fr.valOf(x.Index).t
		switch xt := x.X.Type().Underlying().(type) {
		case *types.Array:
			if !fr.pure {
				u.oblige(fr.obName("idx", fr.describe(x, 0)), "idx", nil, reach,
					fmt.Sprintf("(and (<= 0 %s) (< %s %d))", iv, iv, xt.Len()), fr.pos(x.Pos()), "")
			}
			fr.vals[x] = &Val{t: fr.def("ix", xt.Elem(), fmt.Sprintf("(select %s %s)", xv.t, iv))}
		case *types.Basic: // string index
			if !fr.pure {
				u.oblige(fr.obName("idx", fr.describe(x, 0)), "idx", nil, reach,
					fmt.Sprintf("(and (<= 0 %s) (< %s (str.len %s)))", iv, iv, xv.t), fr.pos(x.Pos()), "")
			}
			fr.vals[x] = &Val{t: fr.defSort("ch", "Int", fmt.Sprintf("(str.to_code (str.at %s %s))", xv.t, iv))}
		default:
			u.unsupport("%s: Index on %s", funcName(fr.fn), x.X.Type())
			fr.vals[x] = fr.unconstrained(x.Type(), "index", st, reach)
		}
	case *ssa.UnOp:
		fr.execUnOp(x, st, reach)
	case *ssa.Store:
		av := fr.valOf(x.Addr)
		fr.nilCheck(x.Addr, av, reach, x.Pos())
		lv := fr.ptrLV(av, x.Addr.Type())
		vv := fr.valOf(x.Val)
		fr.storeSiteAsserts(x, st, reach)
		if av.guard != "" && !fr.pure {
			h := u.heapGet(st, "GH:locks", "(Array Int Int)")
			cond := fmt.Sprintf("(= (select %s %s) 2)", h, av.guard)
			if av.guardObj != "" && u.alloc0 != "" {
				// ... or while the object is still private to the invocation that allocated it (a constructor's literal)
				cond = fmt.Sprintf("(or %s (>= %s %s))", cond, av.guardObj, u.alloc0)
			}
			u.oblige(fr.obName("guard-write", fr.describe(x.Addr, 0)), "lock", []string{"C20"}, reach,
				cond, fr.pos(x.Pos()), "guarded field is written only under the write lock")
		}
		if fr.pure {
			if lv.kind == lvPure {
				u.write(st, lv, fr.valTerm(vv, st))
				if len(lv.path) == 0 && lv.pval != nil {
					*lv.pval = vv
				}
			}
			return
		}
		if av.sharedObj != "" && !fr.pure && u.servesRequest {
			// An object every request goroutine reads without a lock: a function that serves a request may write it only
			// while the object is still its own (allocated in this invocation), or under one of the type's guards.
			cond := "false"
			if u.alloc0 != "" {
				cond = fmt.Sprintf("(>= %s %s)", av.sharedObj, u.alloc0)
			}
			u.oblige(fr.obName("config-write", fr.describe(x.Addr, 0)), "lock", []string{"C20"}, reach, cond, fr.pos(x.Pos()),
				"a field that concurrent requests read without a lock is not written while serving a request")
		}
		if av.frozenIn != "" && !fr.pure {
			// the address was read out of a frozen registry in this function: the store is legal only if the key was absent
			u.oblige(fr.obName("mapinv-frozen-entry", fr.describe(x.Addr, 0)), "mapinv", []string{"C20", "C19"}, reach, not(av.frozenIn), fr.pos(x.Pos()),
				"registry invariant: a published registry entry is never modified in place")
		} else if mt, ok := u.frozenHeaps[lv.name]; ok && lv.kind == lvHeap {
			// "frozen" registry: an object is never written once a registry entry points to it (readers keep using an
			// entry after releasing the registry lock)
			fr.flushMapWF(st)
			pn, ps, vn, vs := fr.mapHeaps(mt)
			hp, hv := u.heapGet(st, pn, ps), u.heapGet(st, vn, vs)
			m, k := u.fresh("m"), u.fresh("k")
			u.oblige(fr.obName("mapinv-frozen", fr.describe(x.Addr, 0)), "mapinv", []string{"C20", "C19"}, reach,
				fmt.Sprintf("(forall ((%s Int) (%s %s)) (=> (select (select %s %s) %s) (not (= (select (select %s %s) %s) %s))))",
					m, k, u.sorts.sortOf(mt.Key()), hp, m, k, hv, m, k, lv.ref), fr.pos(x.Pos()),
				"registry invariant: a published registry entry is never modified in place")
		}
		nst := st.clone()
		u.write(nst, lv, fr.valTerm(vv, nst))
		// conditional on reach is not needed: state of an unreachable block is never selected by a reachable merge
		*st = *nst
	case *ssa.BinOp:
		fr.vals[x] = fr.execBinOp(x, st, reach)
	case *ssa.Phi:
		fr.execPhi(x, b, st, reach)
	case *ssa.Convert:
		fr.vals[x] = fr.execConvert(x, st, reach)
	case *ssa.ChangeType:
		v := fr.valOf(x.X)
		fr.vals[x] = v
	case *ssa.ChangeInterface:
		fr.vals[x] = fr.valOf(x.X)
	case *ssa.MakeInterface:
		fr.vals[x] = fr.makeInterface(x.X.Type(), fr.valOf(x.X), st, reach)
	case *ssa.TypeAssert:
		fr.vals[x] = fr.execTypeAssert(x, st, reach)
	case *ssa.Extract:
		tv := fr.valOf(x.Tuple)
		if tv.tuple == nil || x.Index >= len(tv.tuple) {
			fr.vals[x] = fr.unconstrained(x.Type(), "extract", st, reach)
			return
		}
		fr.vals[x] = tv.tuple[x.Index]
	case *ssa.Slice:
		fr.vals[x] = fr.execSlice(x, st, reach)
	case *ssa.MakeSlice:
		ln := fr.valOf(x.Len).t
		cp := fr.valOf(x.Cap).t
		if !fr.pure {
			u.oblige(fr.obName("makeslice", fr.describe(x.Len, 0)), "slice", nil, reach, fmt.Sprintf("(and (<= 0 %s) (<= %s %s))", ln, ln, cp), fr.pos(x.Pos()), "")
		}
		et := x.Type().Underlying().(*types.Slice).Elem()
		arr := fr.allocRef(st)
		// zero contents
		name := "E:" + s.typeKey(et)
		es := s.sortOf(et)
		hs := "(Array Int (Array Int " + es + "))"
		h := u.heapGet(st, name, hs)
		u.heapSet(st, name, hs, fmt.Sprintf("(store %s %s ((as const (Array Int %s)) %s))", h, arr, es, s.zero(et)))
		fr.vals[x] = &Val{t: fr.def("mk", x.Type(), fmt.Sprintf("(mk-slice %s 0 %s %s)", arr, ln, cp))}
	case *ssa.MakeMap:
		ref := fr.allocRef(st)
		mt := x.Type().Underlying().(*types.Map)
		pn, ps, _, _ := fr.mapHeaps(mt)
		h := u.heapGet(st, pn, ps)
		u.heapSet(st, pn, ps, fmt.Sprintf("(store %s %s ((as const (Array %s Bool)) false))", h, ref, s.sortOf(mt.Key())))
		fr.vals[x] = &Val{t: ref}
	case *ssa.MakeClosure:
		fn := x.Fn.(*ssa.Function)
		v := &Val{t: smtInt(int64(u.eng.funcID(fn))), fn: fn}
		for _, bnd := range x.Bindings {
			v.bindings = append(v.bindings, fr.valOf(bnd))
		}
		fr.vals[x] = v
	case *ssa.MakeChan:
		fr.vals[x] = &Val{t: fr.allocRef(st)}
	case *ssa.Lookup:
		fr.vals[x] = fr.execLookup(x, st, reach)
	case *ssa.MapUpdate:
		mv := fr.valOf(x.Map)
		mt := x.Map.Type().Underlying().(*types.Map)
		if fr.pure {
			return
		}
		fr.mapUpdateAsserts(x, st, reach)
		u.oblige(fr.obName("mapwrite", fr.describe(x.Map, 0)), "mapwrite", nil, reach, fmt.Sprintf("(not (= %s 0))", mv.t), fr.pos(x.Pos()), "")
		if ld, isLd := x.Map.(*ssa.UnOp); isLd && ld.Op == token.MUL && !(fr.fn.Synthetic != "" && fr.fn.Name() == "init") {
			if g, isG := ld.X.(*ssa.Global); isG && u.eng.keptBetweenCalls(g) {
				u.oblige(fr.obName("frame", "cross-call-state."+g.Name()), "frame", nil, reach, "false", fr.pos(x.Pos()),
					"package-level map "+g.Name()+" is updated outside the package initialiser: state carried from one call to the next; the contracts state each result as a function of the call's own arguments")
			}
		}
		if mv.guard != "" {
			h := u.heapGet(st, "GH:locks", "(Array Int Int)")
			u.oblige(fr.obName("guard-write", fr.describe(x.Map, 0)), "lock", []string{"C20"}, reach,
				fmt.Sprintf("(= (select %s %s) 2)", h, mv.guard), fr.pos(x.Pos()), "guarded map is updated only under the write lock")
		}
		pn, ps, vn, vs := fr.mapHeaps(mt)
		k := fr.valTerm(fr.valOf(x.Key), st)
		v := fr.valTerm(fr.valOf(x.Value), st)
		if g := globalMapOf(x.Map); (g != "" && u.eng.mapInv[g] == "nonnil") || mv.mapNonNil {
			u.oblige(fr.obName("mapinv", fr.describe(x.Map, 0)), "mapinv", nil, reach, nonNil(mt.Elem(), v), fr.pos(x.Pos()), "registry invariant: stored values are non-nil")
		}
		hp := u.heapGet(st, pn, ps)
		hv := u.heapGet(st, vn, vs)
		if _, isPtr := mt.Elem().Underlying().(*types.Pointer); isPtr && mv.mapDistinct {
			// registry invariant "distinct": no two keys share one value object. Every pointer already stored is older than
			// the allocation counter at the time the map heap was last unknown (assumed there, see mapValueWF), so a value
			// allocated since then is new to the map.
			fr.flushMapWF(st)
			ks := u.sorts.sortOf(mt.Key())
			q := u.fresh("k")
			u.oblige(fr.obName("mapinv-distinct", fr.describe(x.Map, 0)), "mapinv", nil, reach,
				fmt.Sprintf("(forall ((%s %s)) (=> (and (select (select %s %s) %s) (not (= %s %s))) (not (= (select (select %s %s) %s) %s))))",
					q, ks, hp, mv.t, q, q, k, hv, mv.t, q, v), fr.pos(x.Pos()),
				"registry invariant: each key has its own value object (no entry aliases another)")
		}
		u.heapSet(st, pn, ps, fmt.Sprintf("(store %s %s (store (select %s %s) %s true))", hp, mv.t, hp, mv.t, k))
		u.heapSet(st, vn, vs, fmt.Sprintf("(store %s %s (store (select %s %s) %s %s))", hv, mv.t, hv, mv.t, k, v))
	case *ssa.Range:
		fr.vals[x] = &Val{t: "0"}
	case *ssa.Next:
		u.abstract("range-over-map-or-string")
		fr.vals[x] = fr.unconstrained(x.Type(), "next", st, reach)
	case *ssa.Call:
		fr.vals[x] = fr.execCall(x, x.Common(), st, reach, x.Pos())
	case *ssa.Defer:
		fr.defers = append(fr.defers, deferred{instr: x, block: b})
	case *ssa.RunDefers:
		for i := len(fr.defers) - 1; i >= 0; i-- {
			d := fr.defers[i]
			if !d.block.Dominates(b) {
				u.abstract("conditional-defer")
				continue
			}
			fr.execCall(nil, d.instr.Common(), st, reach, d.instr.Pos())
		}
	case *ssa.Go:
		u.unsupport("%s: go statement", funcName(fr.fn))
	case *ssa.Send, *ssa.Select:
		u.unsupport("%s: channel operation", funcName(fr.fn))
	case *ssa.Panic:
		if !fr.pure {
			u.oblige(fr.obName("panic", fr.describe(x.X, 0)), "panic", nil, reach, "false", fr.pos(x.Pos()), "")
		}
	case *ssa.Return:
		fr.returnSiteAsserts(x, st, reach)
		var vals []*Val
		for _, r := range x.Results {
			vals = append(vals, fr.valOf(r))
		}
		fr.rets = append(fr.rets, retInfo{reach: reach, vals: vals, st: st.clone(), pos: fr.pos(x.Pos()), tpos: x.Pos()})
	case *ssa.If, *ssa.Jump:
		// handled by edgeCond
	default:
		u.unsupport("%s: instruction %T", funcName(fr.fn), in)
		if v, ok := in.(ssa.Value); ok {
			fr.vals[v] = fr.unconstrained(v.Type(), "unsup", st, reach)
		}
	}
}

func globalMapOf(v ssa.Value) string {
	if u, ok := v.(*ssa.UnOp); ok && u.Op == token.MUL {
		if g, ok := u.X.(*ssa.Global); ok {
			return "G:" + g.Pkg.Pkg.Path() + "." + g.Name()
		}
	}
	return ""
}

func nonNil(t types.Type, term string) string {
	if _, ok := t.Underlying().(*types.Interface); ok {
		return fmt.Sprintf("(not (= (i-tag %s) 0))", term)
	}
	return fmt.Sprintf("(not (= %s 0))", term)
}

func indexOfLocal(fn *ssa.Function, a *ssa.Alloc) int {
	for i, l := range fn.Locals {
		if l == a {
			return i
		}
	}
	return -1
}

// flushMapWF states, for every map-value heap of a "distinct" registry that became unknown since the last flush, that the
// pointers it holds are older than the current allocation counter (true of any Go heap: a stored pointer exists).
func (fr *frame) flushMapWF(st *State) {
	u := fr.u
	for _, h := range u.pendingMapWF {
		m, k := u.fresh("m"), u.fresh("k")
		ks := h[1]
		if st.alloc == "" {
			continue
		}
		u.assume("true", fmt.Sprintf("(forall ((%s Int) (%s %s)) (! (< (select (select %s %s) %s) %s) :pattern ((select (select %s %s) %s))))",
			m, k, ks, h[0], m, k, st.alloc, h[0], m, k))
	}
	u.pendingMapWF = nil
}

func (fr *frame) mapHeaps(mt *types.Map) (pn, ps, vn, vs string) {
	s := fr.u.sorts
	ks, es := s.sortOf(mt.Key()), s.sortOf(mt.Elem())
	key := s.typeKey(mt.Key()) + "=>" + s.typeKey(mt.Elem())
	return "MP:" + key, fmt.Sprintf("(Array Int (Array %s Bool))", ks), "MV:" + key, fmt.Sprintf("(Array Int (Array %s %s))", ks, es)
}

func (fr *frame) execLookup(x *ssa.Lookup, st *State, reach string) *Val {
	u := fr.u
	s := u.sorts
	xv := fr.valOf(x.X)
	switch xt := x.X.Type().Underlying().(type) {
	case *types.Map:
		pn, ps, vn, vs := fr.mapHeaps(xt)
		k := fr.valTerm(fr.valOf(x.Index), st)
		hp := u.heapGet(st, pn, ps)
		hv := u.heapGet(st, vn, vs)
		present := fr.defSort("present", "Bool", fmt.Sprintf("(and (not (= %s 0)) (select (select %s %s) %s))", xv.t, hp, xv.t, k))
		val := fr.def("mval", xt.Elem(), ite(present, fmt.Sprintf("(select (select %s %s) %s)", hv, xv.t, k), s.zero(xt.Elem())))
		fr.assumeWF(xt.Elem(), val, st, reach)
		if g := globalMapOf(x.X); ((g != "" && u.eng.mapInv[g] == "nonnil") || xv.mapNonNil) && !fr.pure {
			u.assume(and(reach, present), nonNil(xt.Elem(), val))
		}
		fz := ""
		if xv.mapFrozen && !fr.pure {
			fz = present
		}
		if x.CommaOk {
			return &Val{tuple: []*Val{{t: val, frozenIn: fz}, {t: present}}}
		}
		return &Val{t: val, frozenIn: fz}
	case *types.Basic:
		iv := fr.valOf(x.Index).t
		if !fr.pure {
			u.oblige(fr.obName("idx", fr.describe(x, 0)), "idx", nil, reach,
				fmt.Sprintf("(and (<= 0 %s) (< %s (str.len %s)))", iv, iv, xv.t), fr.pos(x.Pos()), "")
		}
		return &Val{t: fr.defSort("ch", "Int", fmt.Sprintf("(str.to_code (str.at %s %s))", xv.t, iv))}
	}
	return fr.unconstrained(x.Type(), "lookup", st, reach)
}

func (fr *frame) execUnOp(x *ssa.UnOp, st *State, reach string) {
	u := fr.u
	v := fr.valOf(x.X)
	switch x.Op {
	case token.MUL: // load
		if g, isG := x.X.(*ssa.Global); isG && !(fr.fn.Synthetic != "" && fr.fn.Name() == "init") {
			if c, ok := u.eng.constScalar(g); ok {
				fr.vals[x] = fr.constVal(c)
				return
			}
		}
		if g, isG := x.X.(*ssa.Global); isG && !fr.pure && !(fr.fn.Synthetic != "" && fr.fn.Name() == "init") {
			if elems, ok := u.eng.constTable(g); ok {
				fr.vals[x] = fr.loadConstTable(g, elems, st)
				return
			}
			if ie := u.eng.initOnce(g); ie != nil {
				nf := u.newFrame(ie.fn, fr.depth+1, false, fr.prefix+funcName(fr.fn)+">")
				for _, in := range ie.instrs {
					nf.execInstr(in, st, reach, in.Block())
				}
				fr.vals[x] = nf.valOf(ie.val)
				u.rebinds = append(u.rebinds, fmt.Sprintf("%s: package variable %s read as its initialiser (assigned once, from constants and calls only)", funcName(fr.fn), g.Name()))
				return
			}
		}
		fr.nilCheck(x.X, v, reach, x.Pos())
		lv := fr.ptrLV(v, x.X.Type())
		if lv.kind == lvPure && len(lv.path) == 0 && lv.pval != nil && *lv.pval != nil {
			fr.vals[x] = *lv.pval
			return
		}
		if !fr.pure {
			if _, fromHeap := x.X.(*ssa.Alloc); !fromHeap {
				if lk := lockInside(x.Type(), 0); lk != "" {
					u.oblige(fr.obName("lock-copy", fr.describe(x.X, 0)), "lock", []string{"C19", "C20"}, reach, "false", fr.pos(x.Pos()),
						"a value carrying "+lk+" is copied: locks taken on the copy exclude nobody who locks the original")
				}
			}
		}
		term := fr.def("ld", x.Type(), u.read(st, lv))
		fr.assumeWF(x.Type(), term, st, reach)
		nv := &Val{t: term}
		if v.guard != "" && !fr.pure {
			h := u.heapGet(st, "GH:locks", "(Array Int Int)")
			u.oblige(fr.obName("guard-read", fr.describe(x.X, 0)), "lock", []string{"C20"}, reach,
				fmt.Sprintf("(not (= (select %s %s) 0))", h, v.guard), fr.pos(x.Pos()), "guarded field is read only while its lock is held")
			nv.guard = v.guard
		}
		nv.mapNonNil = v.mapNonNil
		nv.mapDistinct = v.mapDistinct
		nv.mapFrozen = v.mapFrozen
		fr.vals[x] = nv
	case token.NOT:
		fr.vals[x] = &Val{t: not(v.t)}
	case token.SUB:
		if isFloat(x.Type()) {
			fr.vals[x] = &Val{t: fmt.Sprintf("(- %s)", v.t)}
		} else {
			fr.vals[x] = &Val{t: fr.wrap(x.Type(), fmt.Sprintf("(- %s)", v.t))}
		}
	case token.XOR:
		fr.vals[x] = &Val{t: fmt.Sprintf("(%s %s)", u.sorts.uf("bitnot", []string{"Int"}, "Int"), v.t)}
	case token.ARROW:
		u.unsupport("%s: channel receive", funcName(fr.fn))
		fr.vals[x] = fr.unconstrained(x.Type(), "recv", st, reach)
	default:
		u.unsupport("%s: unop %s", funcName(fr.fn), x.Op)
		fr.vals[x] = fr.unconstrained(x.Type(), "unop", st, reach)
	}
}

func isFloat(t types.Type) bool {
	b, ok := t.Underlying().(*types.Basic)
	return ok && b.Info()&types.IsFloat != 0
}

func isString(t types.Type) bool {
	b, ok := t.Underlying().(*types.Basic)
	return ok && b.Info()&types.IsString != 0
}

func isUnsigned(t types.Type) bool {
	b, ok := t.Underlying().(*types.Basic)
	return ok && b.Info()&types.IsUnsigned != 0
}

func intBits(t types.Type) (bits int, unsigned bool) {
	b, ok := t.Underlying().(*types.Basic)
	if !ok {
		return 0, false
	}
	switch b.Kind() {
	case types.Int8:
		return 8, false
	case types.Int16:
		return 16, false
	case types.Int32:
		return 32, false
	case types.Int64, types.Int:
		return 64, false
	case types.Uint8:
		return 8, true
	case types.Uint16:
		return 16, true
	case types.Uint32:
		return 32, true
	case types.Uint64, types.Uint, types.Uintptr:
		return 64, true
	}
	return 0, false
}

// wrap applies machine wrap-around for small unsigned types; wider types are mathematical
// unless the unit is in bv64 mode (handled separately).
func (fr *frame) wrap(t types.Type, term string) string {
	bits, uns := intBits(t)
	if uns && bits == 8 {
		return fmt.Sprintf("(mod %s 256)", term)
	}
	if fr.u.eng.wrap64[fr.u.fn] && bits == 64 && !uns {
		// two's complement wrap of a mathematical result into int64
		return fmt.Sprintf("(- (mod (+ %s 9223372036854775808) 18446744073709551616) 9223372036854775808)", term)
	}
	return term
}

func (fr *frame) execBinOp(x *ssa.BinOp, st *State, reach string) *Val {
	u := fr.u
	a, b := fr.valOf(x.X), fr.valOf(x.Y)
	xt := x.X.Type()
	switch x.Op {
	case token.EQL, token.NEQ:
		var e string
		switch xt.Underlying().(type) {
		case *types.Pointer:
			e = fr.ptrEq(x.X, a, x.Y, b, st)
		case *types.Slice:
			// only comparison with nil is legal
			other := a
			if c, ok := x.X.(*ssa.Const); ok && c.Value == nil {
				other = b
			}
			e = fmt.Sprintf("(= (s-arr %s) 0)", other.t)
		case *types.Interface:
			e = eq(fr.valTerm(a, st), fr.valTerm(b, st))
		default:
			e = eq(fr.valTerm(a, st), fr.valTerm(b, st))
		}
		if x.Op == token.NEQ {
			e = not(e)
		}
		return &Val{t: fr.defSort("cmp", "Bool", e)}
	}
	at, bt := a.t, b.t
	if isString(xt) {
		switch x.Op {
		case token.ADD:
			return &Val{t: fr.defSort("cat", "String", fmt.Sprintf("(str.++ %s %s)", at, bt))}
		case token.LSS:
			return &Val{t: fmt.Sprintf("(str.< %s %s)", at, bt)}
		case token.LEQ:
			return &Val{t: fmt.Sprintf("(str.<= %s %s)", at, bt)}
		case token.GTR:
			return &Val{t: fmt.Sprintf("(str.< %s %s)", bt, at)}
		case token.GEQ:
			return &Val{t: fmt.Sprintf("(str.<= %s %s)", bt, at)}
		}
	}
	if b, ok := xt.Underlying().(*types.Basic); ok && b.Info()&types.IsBoolean != 0 {
		switch x.Op {
		case token.AND, token.LAND:
			return &Val{t: and(at, bt)}
		case token.OR, token.LOR:
			return &Val{t: or(at, bt)}
		}
	}
	fl := isFloat(xt)
	switch x.Op {
	case token.LSS:
		return &Val{t: fmt.Sprintf("(< %s %s)", at, bt)}
	case token.LEQ:
		return &Val{t: fmt.Sprintf("(<= %s %s)", at, bt)}
	case token.GTR:
		return &Val{t: fmt.Sprintf("(> %s %s)", at, bt)}
	case token.GEQ:
		return &Val{t: fmt.Sprintf("(>= %s %s)", at, bt)}
	case token.ADD:
		if fl {
			return &Val{t: fr.fpRound(fmt.Sprintf("(+ %s %s)", at, bt), st, reach)}
		}
		return &Val{t: fr.def("add", x.Type(), fr.wrap(x.Type(), fmt.Sprintf("(+ %s %s)", at, bt)))}
	case token.SUB:
		if fl {
			return &Val{t: fr.fpRound(fmt.Sprintf("(- %s %s)", at, bt), st, reach)}
		}
		return &Val{t: fr.def("sub", x.Type(), fr.wrap(x.Type(), fmt.Sprintf("(- %s %s)", at, bt)))}
	case token.MUL:
		if fl {
			return &Val{t: fr.fpRound(fmt.Sprintf("(* %s %s)", at, bt), st, reach)}
		}
		return &Val{t: fr.def("mul", x.Type(), fr.wrap(x.Type(), fmt.Sprintf("(* %s %s)", at, bt)))}
	case token.QUO:
		if fl {
			return &Val{t: fr.fpRound(fmt.Sprintf("(/ %s %s)", at, bt), st, reach)}
		}
		if _, isConst := x.Y.(*ssa.Const); !isConst && !fr.pure {
			u.oblige(fr.obName("div0", fr.describe(x.Y, 0)), "div0", nil, reach, fmt.Sprintf("(not (= %s 0))", bt), fr.pos(x.Pos()), "")
		}
		return &Val{t: fr.def("quo", x.Type(), fmt.Sprintf("(godiv %s %s)", at, bt))}
	case token.REM:
		if _, isConst := x.Y.(*ssa.Const); !isConst && !fr.pure {
			u.oblige(fr.obName("div0", fr.describe(x.Y, 0)), "div0", nil, reach, fmt.Sprintf("(not (= %s 0))", bt), fr.pos(x.Pos()), "")
		}
		return &Val{t: fr.def("rem", x.Type(), fmt.Sprintf("(gorem %s %s)", at, bt))}
	case token.SHL:
		if c, ok := x.Y.(*ssa.Const); ok {
			if n, ok := constInt(c); ok && n < 62 {
				return &Val{t: fr.def("shl", x.Type(), fr.wrap(x.Type(), fmt.Sprintf("(* %s %d)", at, int64(1)<<uint(n))))}
			}
		}
	case token.SHR:
		if c, ok := x.Y.(*ssa.Const); ok {
			if n, ok := constInt(c); ok && n < 62 {
				return &Val{t: fr.def("shr", x.Type(), fmt.Sprintf("(div %s %d)", at, int64(1)<<uint(n)))}
			}
		}
	}
	// bit operations and the rest: uninterpreted
	f := u.sorts.uf("binop"+x.Op.String(), []string{u.sorts.sortOf(xt), u.sorts.sortOf(x.Y.Type())}, u.sorts.sortOf(x.Type()))
	u.abstract("binop " + x.Op.String())
	return &Val{t: fmt.Sprintf("(%s %s %s)", f, at, bt)}
}

func constInt(c *ssa.Const) (int64, bool) {
	if c.Value == nil {
		return 0, false
	}
	return c.Int64(), true
}

// fpRound models a float64 operation result: exact value times (1+d), |d| <= 2^-53.
func (fr *frame) fpRound(exact string, st *State, reach string) string {
	u := fr.u
	if fr.pure {
		return exact
	}
	// r = exact + e with |e| <= |exact| * 2^-53 : linear in (exact, e), unlike exact*(1+d)
	x := u.define("fpx", "Real", exact)
	e := u.declare("fpe", "Real")
	ax := fmt.Sprintf("(ite (>= %s 0.0) %s (- %s))", x, x, x)
	u.assume("true", fmt.Sprintf("(and (<= (- (/ %s 9007199254740992.0)) %s) (<= %s (/ %s 9007199254740992.0)))", ax, e, e, ax))
	return u.define("fp", "Real", fmt.Sprintf("(+ %s %s)", x, e))
}

func (fr *frame) ptrEq(xv ssa.Value, a *Val, yv ssa.Value, b *Val, st *State) string {
	isNil := func(v ssa.Value) bool { c, ok := v.(*ssa.Const); return ok && c.Value == nil }
	interior := func(v *Val) bool {
		return v.t == "" && v.lv != nil && !(v.lv.kind == lvHeap && len(v.lv.path) == 0)
	}
	if isNil(yv) && interior(a) || isNil(xv) && interior(b) {
		return "false"
	}
	return eq(fr.ptrTerm(a, st), fr.ptrTerm(b, st))
}

func (fr *frame) execPhi(x *ssa.Phi, b *ssa.BasicBlock, st *State, reach string) {
	if _, ok := fr.vals[x]; ok {
		return // loop header phi already havocked
	}
	var terms, conds []string
	var single *Val
	n := 0
	for i, p := range b.Preds {
		if _, ok := fr.out[p.Index]; !ok {
			continue
		}
		ev := fr.valOf(x.Edges[i])
		single = ev
		n++
		terms = append(terms, fr.valTerm(ev, fr.out[p.Index]))
		conds = append(conds, fr.edgeCond(p, b))
	}
	if n == 0 {
		fr.vals[x] = fr.unconstrained(x.Type(), "phi", st, reach)
		return
	}
	if n == 1 {
		fr.vals[x] = single
		return
	}
	term := terms[len(terms)-1]
	for i := len(terms) - 2; i >= 0; i-- {
		term = ite(conds[i], terms[i], term)
	}
	fr.vals[x] = &Val{t: fr.def("phi."+x.Comment, x.Type(), term)}
}

func (fr *frame) execConvert(x *ssa.Convert, st *State, reach string) *Val {
	u := fr.u
	s := u.sorts
	v := fr.valOf(x.X)
	from, to := x.X.Type().Underlying(), x.Type().Underlying()
	fb, fok := from.(*types.Basic)
	tb, tok := to.(*types.Basic)
	switch {
	case fok && tok && fb.Info()&types.IsInteger != 0 && tb.Info()&types.IsInteger != 0:
		tbits, tuns := intBits(to)
		fbits, funs := intBits(from)
		if tbits == 8 && tuns && !(fbits == 8 && funs) {
			return &Val{t: fr.def("conv", x.Type(), fmt.Sprintf("(mod %s 256)", v.t))}
		}
		return v
	case fok && tok && fb.Info()&types.IsInteger != 0 && tb.Info()&types.IsFloat != 0:
		return &Val{t: fr.defSort("i2f", "Real", fmt.Sprintf("(to_real %s)", v.t))}
	case fok && tok && fb.Info()&types.IsFloat != 0 && tb.Info()&types.IsInteger != 0:
		// truncation toward zero
		return &Val{t: fr.defSort("f2i", "Int", fmt.Sprintf("(ite (>= %s 0.0) (to_int %s) (- (to_int (- %s))))", v.t, v.t, v.t))}
	case fok && tok && fb.Info()&types.IsFloat != 0 && tb.Info()&types.IsFloat != 0:
		return v
	case fok && tok && fb.Info()&types.IsString != 0 && tb.Info()&types.IsString != 0:
		return v
	case fok && fb.Info()&types.IsString != 0:
		if sl, ok := to.(*types.Slice); ok { // []byte(s)
			if fr.pure {
				f := s.uf("bytes_of_str", []string{"String"}, "Slice")
				return &Val{t: fmt.Sprintf("(%s %s)", f, v.t)}
			}
			et := sl.Elem()
			arr := fr.allocRef(st)
			name := "E:" + s.typeKey(et)
			hs := "(Array Int (Array Int " + s.sortOf(et) + "))"
			h := u.heapGet(st, name, hs)
			cont := u.declare("strbytes", "(Array Int "+s.sortOf(et)+")")
			u.heapSet(st, name, hs, fmt.Sprintf("(store %s %s %s)", h, arr, cont))
			ln := fmt.Sprintf("(str.len %s)", v.t)
			f := s.uf("str_of_bytes", []string{"(Array Int " + s.sortOf(et) + ")", "Int", "Int"}, "String")
			u.assume(reach, fmt.Sprintf("(= (%s %s 0 %s) %s)", f, cont, ln, v.t))
			return &Val{t: fr.def("s2b", x.Type(), fmt.Sprintf("(mk-slice %s 0 %s %s)", arr, ln, ln))}
		}
	case tok && tb.Info()&types.IsString != 0:
		if sl, ok := from.(*types.Slice); ok { // string(bytes)
			et := sl.Elem()
			name := "E:" + s.typeKey(et)
			hs := "(Array Int (Array Int " + s.sortOf(et) + "))"
			h := u.heapGet(st, name, hs)
			f := s.uf("str_of_bytes", []string{"(Array Int " + s.sortOf(et) + ")", "Int", "Int"}, "String")
			term := fr.defSort("b2s", "String", fmt.Sprintf("(%s (select %s (s-arr %s)) (s-off %s) (s-len %s))", f, h, v.t, v.t, v.t))
			if !fr.pure {
				u.assume(reach, fmt.Sprintf("(= (str.len %s) (s-len %s))", term, v.t))
			}
			return &Val{t: term}
		}
		if fok && fb.Info()&types.IsInteger != 0 { // string(rune)
			f := s.uf("str_of_rune", []string{"Int"}, "String")
			return &Val{t: fmt.Sprintf("(%s %s)", f, v.t)}
		}
	}
	if _, ok := to.(*types.Pointer); ok {
		return v // unsafe.Pointer conversions
	}
	u.abstract(fmt.Sprintf("convert %s->%s", from, to))
	return fr.unconstrained(x.Type(), "conv", st, reach)
}

func (fr *frame) boxFns(t types.Type) (box, unbox string) {
	s := fr.u.sorts
	k := s.typeKey(t)
	return s.uf("box:"+k, []string{s.sortOf(t)}, "Int"), s.uf("unbox:"+k, []string{"Int"}, s.sortOf(t))
}

func isPointerLike(t types.Type) bool {
	switch t.Underlying().(type) {
	case *types.Pointer, *types.Map, *types.Chan, *types.Signature:
		return true
	}
	if b, ok := t.Underlying().(*types.Basic); ok && b.Kind() == types.UnsafePointer {
		return true
	}
	return false
}

func (fr *frame) makeInterface(t types.Type, v *Val, st *State, reach string) *Val {
	u := fr.u
	if _, ok := t.Underlying().(*types.Interface); ok {
		return v
	}
	tag := u.sorts.typeID(t)
	var payload string
	if isPointerLike(t) {
		payload = fr.valTerm(v, st)
	} else {
		box, unbox := fr.boxFns(t)
		vt := fr.valTerm(v, st)
		payload = fr.defSort("box", "Int", fmt.Sprintf("(%s %s)", box, vt))
		if !fr.pure {
			u.assume("true", fmt.Sprintf("(and (>= %s 0) (= (%s %s) %s))", payload, unbox, payload, vt))
		}
	}
	return &Val{t: fr.defSort("iface", "Iface", fmt.Sprintf("(mk-iface %d %s)", tag, payload)), boxed: v, btyp: t}
}

func (fr *frame) execTypeAssert(x *ssa.TypeAssert, st *State, reach string) *Val {
	u := fr.u
	s := u.sorts
	v := fr.valOf(x.X)
	at := x.AssertedType
	var ok, res string
	var resVal *Val
	if _, isIface := at.Underlying().(*types.Interface); isIface {
		// interface-to-interface: succeeds iff dynamic type implements; abstract via UF on the tag
		if v.btyp != nil {
			if types.Implements(v.btyp, at.Underlying().(*types.Interface)) {
				ok = "true"
			} else {
				ok = "false"
			}
		} else {
			f := s.uf("implements:"+at.String(), []string{"Int"}, "Bool")
			ok = fmt.Sprintf("(and (not (= (i-tag %s) 0)) (%s (i-tag %s)))", v.t, f, v.t)
		}
		res = v.t
		resVal = &Val{t: res, boxed: v.boxed, btyp: v.btyp}
	} else {
		tag := s.typeID(at)
		ok = fmt.Sprintf("(= (i-tag %s) %d)", v.t, tag)
		if isPointerLike(at) {
			res = fmt.Sprintf("(i-val %s)", v.t)
		} else {
			_, unbox := fr.boxFns(at)
			res = fmt.Sprintf("(%s (i-val %s))", unbox, v.t)
		}
		okd := fr.defSort("taok", "Bool", ok)
		ok = okd
		res = fr.def("ta", at, ite(ok, res, s.zero(at)))
		fr.assumeWF(at, res, st, and(reach, ok))
		resVal = &Val{t: res}
		if v.boxed != nil && v.btyp != nil && types.Identical(v.btyp, at) {
			resVal.fn = v.boxed.fn
			resVal.bindings = v.boxed.bindings
		}
	}
	if x.CommaOk {
		return &Val{tuple: []*Val{resVal, {t: ok}}}
	}
	if !fr.pure {
		u.oblige(fr.obName("typeassert", fr.describe(x, 0)), "typeassert", nil, reach, ok, fr.pos(x.Pos()), "")
	}
	return resVal
}

func (fr *frame) execSlice(x *ssa.Slice, st *State, reach string) *Val {
	u := fr.u
	xv := fr.valOf(x.X)
	get := func(v ssa.Value) string {
		if v == nil {
			return ""
		}
		return fr.valOf(v).t
	}
	lo, hi, mx := get(x.Low), get(x.High), get(x.Max)
	switch xt := x.X.Type().Underlying().(type) {
	case *types.Slice:
		if lo == "" {
			lo = "0"
		}
		if hi == "" {
			hi = fmt.Sprintf("(s-len %s)", xv.t)
		}
		capT := fmt.Sprintf("(s-cap %s)", xv.t)
		if mx == "" {
			mx = capT
		}
		if !fr.pure {
			u.oblige(fr.obName("slice", fr.describe(x.X, 0)+"["+describeOpt(fr, x.Low)+":"+describeOpt(fr, x.High)+"]"), "slice", nil, reach,
				fmt.Sprintf("(and (<= 0 %s) (<= %s %s) (<= %s %s) (<= %s %s))", lo, lo, hi, hi, mx, mx, capT), fr.pos(x.Pos()), "")
		}
		return &Val{t: fr.def("sl", x.Type(), fmt.Sprintf("(mk-slice (s-arr %s) (+ (s-off %s) %s) (- %s %s) (- %s %s))", xv.t, xv.t, lo, hi, lo, mx, lo))}
	case *types.Basic: // string
		if lo == "" {
			lo = "0"
		}
		if hi == "" {
			hi = fmt.Sprintf("(str.len %s)", xv.t)
		}
		if !fr.pure {
			u.oblige(fr.obName("slice", fr.describe(x.X, 0)+"["+describeOpt(fr, x.Low)+":"+describeOpt(fr, x.High)+"]"), "slice", nil, reach,
				fmt.Sprintf("(and (<= 0 %s) (<= %s %s) (<= %s (str.len %s)))", lo, lo, hi, hi, xv.t), fr.pos(x.Pos()), "")
		}
		return &Val{t: fr.defSort("substr", "String", fmt.Sprintf("(str.substr %s %s (- %s %s))", xv.t, lo, hi, lo))}
	case *types.Pointer: // pointer to array
		at := xt.Elem().Underlying().(*types.Array)
		n := at.Len()
		if lo == "" {
			lo = "0"
		}
		if hi == "" {
			hi = fmt.Sprintf("%d", n)
		}
		if !fr.pure {
			fr.nilCheck(x.X, xv, reach, x.Pos())
			u.oblige(fr.obName("slice", fr.describe(x.X, 0)+"[:]"), "slice", nil, reach,
				fmt.Sprintf("(and (<= 0 %s) (<= %s %s) (<= %s %d))", lo, lo, hi, hi, n), fr.pos(x.Pos()), "")
		}
		// copy the array into a fresh backing store (aliasing with the array variable is not tracked)
		et := at.Elem()
		s := u.sorts
		arr := fr.allocRef(st)
		name := "E:" + s.typeKey(et)
		hs := "(Array Int (Array Int " + s.sortOf(et) + "))"
		h := u.heapGet(st, name, hs)
		lv := fr.ptrLV(xv, x.X.Type())
		u.heapSet(st, name, hs, fmt.Sprintf("(store %s %s %s)", h, arr, u.read(st, lv)))
		u.abstract("array-to-slice-copy")
		return &Val{t: fr.def("sl", x.Type(), fmt.Sprintf("(mk-slice %s %s (- %s %s) (- %d %s))", arr, lo, hi, lo, n, lo))}
	}
	u.unsupport("%s: slice of %s", funcName(fr.fn), x.X.Type())
	return fr.unconstrained(x.Type(), "slice", st, reach)
}

func describeOpt(fr *frame, v ssa.Value) string {
	if v == nil {
		return ""
	}
	return fr.describe(v, 1)
}

// ---------------------------------------------------------------------------
// loops

// modifiedIn computes the heap/cell names that may be written inside the loop body.
func (fr *frame) modifiedIn(li *loopInfo) (names ModSet, all bool) {
	names = ModSet{}
	ks := fr.u.sorts
	for _, b := range fr.fn.Blocks {
		if !li.body[b.Index] {
			continue
		}
		for _, in := range b.Instrs {
			switch x := in.(type) {
			case *ssa.Store:
				if root, fields, ok := fieldChain(x.Addr); ok && fr.definedOutside(root, li) {
					// a field path of an object designated by a loop-invariant pointer: havoc exactly that location
					li.precise = append(li.precise, preciseTarget{root: root, fields: fields})
					continue
				}
				before := map[string]bool{}
				for k := range names {
					before[k] = true
				}
				fr.u.eng.storeTarget(x.Addr, fr, names)
				// "fresh object" frames are only valid when the object is allocated inside the loop
				if ra := rootAlloc(x.Addr); ra != nil && !li.body[ra.Block().Index] {
					for k, t := range names {
						if !before[k] && (strings.HasPrefix(k, "HF:") || strings.HasPrefix(k, "EF:")) {
							delete(names, k)
							names[k[:1]+k[2:]] = t
						}
					}
				}
			case *ssa.MapUpdate:
				mt := x.Map.Type().Underlying().(*types.Map)
				pn, _, vn, _ := fr.mapHeaps(mt)
				names[pn] = mt
				names[vn] = mt
			case *ssa.Alloc:
				et := x.Type().Underlying().(*types.Pointer).Elem()
				if !x.Heap {
					names[fmt.Sprintf("C:%s%s.%s.%d", fr.prefix, funcName(fr.fn), x.Comment, indexOfLocal(fr.fn, x))] = et
				} else {
					names["HF:"+ks.typeKey(et)] = et
				}
			case *ssa.MakeSlice:
				et := x.Type().Underlying().(*types.Slice).Elem()
				names["EF:"+ks.typeKey(et)] = et
			case *ssa.MakeMap:
				mt := x.Type().Underlying().(*types.Map)
				pn, _, _, _ := fr.mapHeaps(mt)
				names[pn] = mt
			case *ssa.Convert:
				if sl, ok := x.Type().Underlying().(*types.Slice); ok {
					names["EF:"+ks.typeKey(sl.Elem())] = sl.Elem()
				}
			case *ssa.Slice:
				if pt, ok := x.X.Type().Underlying().(*types.Pointer); ok {
					if at, ok := pt.Elem().Underlying().(*types.Array); ok {
						names["EF:"+ks.typeKey(at.Elem())] = at.Elem()
					}
				}
			case ssa.CallInstruction:
				c := x.Common()
				if bi, ok := c.Value.(*ssa.Builtin); ok && bi.Name() == "append" {
					if sl, ok := c.Args[0].Type().Underlying().(*types.Slice); ok {
						names["EF:"+ks.typeKey(sl.Elem())] = sl.Elem()
					}
				}
				ms := fr.u.eng.callMods(c, fr)
				for k, t := range ms {
					if k == "*" {
						all = true
						continue
					}
					names[k] = t
				}
				// inlined callees may allocate and box: be conservative for heaps of their own allocations
				if f := c.StaticCallee(); f != nil && isRepoFunc(f) && len(f.Blocks) > 0 {
					fr.u.eng.allocHeaps(f, names, map[*ssa.Function]bool{})
				}
			}
		}
	}
	return
}

func (fr *frame) loopInvariants(li *loopInfo) []*Clause {
	if fr.pure {
		return nil
	}
	var res []*Clause
	if fr.depth == 0 {
		if fr.contract == nil {
			return nil
		}
		lm := fr.loopMap()
		for _, c := range fr.contract.Loops {
			if lm != nil {
				// the function's loops were re-arranged: the invariant follows the loop it was written for
				if to, ok := lm[c.Loop]; ok && to == li.ordinal {
					res = append(res, c)
				}
				continue
			}
			if c.Loop == li.ordinal {
				res = append(res, c)
			}
		}
		return res
	}
	// A loop in the body of a function without a contract, inlined into the unit: an invariant of the unit's contract
	// whose own loop is gone from the unit's body (the loop was moved into this helper) is tried here when every variable
	// it names is a variable of this loop. It is obliged on entry and across the back edge like any other invariant.
	root := fr.anchorRoot()
	if root == nil {
		return nil
	}
	for _, c := range root.contract.Loops {
		if c.Fn == nil || !root.loopGone(c) {
			continue
		}
		ok := true
		for vi, name := range c.VarNames {
			if vi < len(c.VarLocal) {
				name = c.VarLocal[vi]
			}
			if !fr.loopHasVar(li, name) {
				ok = false
			}
		}
		if ok {
			res = append(res, c)
			note := fmt.Sprintf("%s: invariant %s (written for loop %d) applied to loop %d of %s (inlined: no contract of its own)", funcName(root.fn), c.Label, c.Loop, li.ordinal, funcName(fr.fn))
			dup := false
			for _, r := range fr.u.rebinds {
				if r == note {
					dup = true
				}
			}
			if !dup {
				fr.u.rebinds = append(fr.u.rebinds, note)
			}
		}
	}
	return res
}

// loopGone: the loop an invariant of this frame's contract was written for is no longer in the function's body -
// there are fewer loops than its ordinal, or the loop of that ordinal has none of the variables the invariant names.
func (fr *frame) loopGone(c *Clause) bool {
	if lm := fr.loopMap(); lm != nil {
		_, ok := lm[c.Loop]
		return !ok
	}
	var li *loopInfo
	for _, l := range fr.loops {
		if l.ordinal == c.Loop {
			li = l
		}
	}
	if li == nil {
		return true
	}
	if len(c.VarNames) == 0 {
		return false
	}
	for vi, name := range c.VarNames {
		if vi < len(c.VarLocal) {
			name = c.VarLocal[vi]
		}
		if fr.loopHasVar(li, name) {
			return false
		}
	}
	return true
}

// loopHasVar: a source-level variable of that name is carried by the loop (phi at its header) or is a local cell or
// named value of the function that is visible at the loop's header.
func (fr *frame) loopHasVar(li *loopInfo, name string) bool {
	if i := strings.Index(name, "."); i > 0 {
		name = name[:i]
	}
	name = strings.TrimSuffix(strings.TrimPrefix(name, "reached:"), "?")
	for _, in := range li.header.Instrs {
		if p, ok := in.(*ssa.Phi); ok && p.Comment == name {
			return true
		}
	}
	for _, l := range fr.fn.Locals {
		if l.Comment == name && l.Block() != nil && (l.Block() == li.header || l.Block().Dominates(li.header)) {
			return true
		}
	}
	for _, b := range fr.fn.Blocks {
		if !(b == li.header || b.Dominates(li.header)) {
			continue
		}
		for _, in := range b.Instrs {
			if d, ok := in.(*ssa.DebugRef); ok {
				if id, ok := d.Expr.(*ast.Ident); ok && id.Name == name {
					return true
				}
			}
		}
	}
	for _, p := range fr.fn.Params {
		if p.Name() == name {
			return true
		}
	}
	return false
}

// loopEnv returns the arguments for an invariant spec function: params, named vars, iter.
func (fr *frame) loopEnv(li *loopInfo, c *Clause, phiVal func(p *ssa.Phi) *Val, st *State) ([]*Val, bool) {
	args := append([]*Val{}, fr.params...)
	if root := fr.anchorRoot(); root != nil && root != fr {
		args = append([]*Val{}, root.params...) // a migrated invariant speaks about the unit's parameters
	}
	for vi, name := range c.VarNames {
		if vi < len(c.VarLocal) {
			name = c.VarLocal[vi]
		}
		var found *Val
		for _, in := range li.header.Instrs {
			p, ok := in.(*ssa.Phi)
			if !ok {
				break
			}
			if p.Comment == name {
				found = phiVal(p)
			}
		}
		if found == nil {
			// a local cell by that name
			// (several locals may share the name: take the innermost one whose declaration dominates this loop)
			var bestL *ssa.Alloc
			for _, l := range fr.fn.Locals {
				if l.Comment != name || l.Block() == nil || !(l.Block() == li.header || l.Block().Dominates(li.header)) {
					continue
				}
				if v, ok := fr.vals[l]; !ok || v.lv == nil {
					continue
				}
				if bestL == nil || bestL.Block().Dominates(l.Block()) {
					bestL = l
				}
			}
			if bestL != nil {
				found = &Val{t: fr.u.read(st, fr.vals[bestL].lv)}
			}
		}
		if found == nil && len(li.header.Instrs) > 0 {
			found = fr.localNamed(name, li.header.Instrs[0], st)
		}
		if found == nil && fr.depth > 0 {
			for _, p := range fr.fn.Params {
				if p.Name() == name {
					found = fr.vals[p]
				}
			}
		}
		if found == nil {
			return nil, false
		}
		args = append(args, found)
	}
	// iter
	var iter *Val
	for _, in := range li.header.Instrs {
		p, ok := in.(*ssa.Phi)
		if !ok {
			break
		}
		if p.Comment == "rangeindex" {
			iter = &Val{t: fmt.Sprintf("(+ %s 1)", phiVal(p).t)}
		}
	}
	if iter == nil {
		iter = &Val{t: "0"}
	}
	args = append(args, iter)
	return args, true
}

func (fr *frame) enterLoop(li *loopInfo, st *State, reach string) *State {
	u := fr.u
	if fr.pure {
		u.unsupport("%s: loop in specification function", funcName(fr.fn))
		return st
	}
	h := li.header
	// values on entry edges
	entryVal := func(p *ssa.Phi) *Val {
		var terms, conds []string
		for i, pr := range h.Preds {
			if h.Dominates(pr) {
				continue
			}
			if _, ok := fr.out[pr.Index]; !ok {
				continue
			}
			terms = append(terms, fr.valTerm(fr.valOf(p.Edges[i]), st))
			conds = append(conds, fr.edgeCond(pr, h))
		}
		if len(terms) == 0 {
			return &Val{t: u.sorts.zero(p.Type())}
		}
		term := terms[len(terms)-1]
		for i := len(terms) - 2; i >= 0; i-- {
			term = ite(conds[i], terms[i], term)
		}
		return &Val{t: term}
	}
	invs := fr.loopInvariants(li)
	if u.eng.loopsNew(fr.fn) && fr.rangesOverTable(li) {
		// a loop over a table of fixed size (an array, a slice literal, a package-level table) that was not there when the
		// proofs were made: the signature of a table-driven rewrite. Proving through it would take unrolling, which the
		// engine does not do, and the ordinals of the function's other loops have moved: what fails to be proved from
		// here on is undecided (the unit says so), not violated - unless an invariant by construction covers the loop
		fr.pendingNewLoop = true
	}
	// 1. invariants on entry
	for _, c := range invs {
		args, ok := fr.loopEnv(li, c, entryVal, st)
		if !ok {
			// the invariant names a loop variable that no longer exists (the loop was rewritten): it is dropped with a note,
			// and the proof stands or falls with the automatic invariants - the failure, if any, shows at the postcondition
			u.warn("loop invariant %s of %s loop %d dropped: variable not found", c.Label, funcName(fr.fn), li.ordinal)
			u.rebinds = append(u.rebinds, fmt.Sprintf("%s: invariant %s of loop %d dropped (its variable no longer exists)", funcName(fr.fn), c.Label, li.ordinal))
			continue
		}
		t := fr.evalSpec(c, args, st, nil)
		u.oblige(fr.obName("inv-init", fmt.Sprintf("loop%d.%s", li.ordinal, c.Label)), "inv-init", c.Tags, reach, t, fr.pos(h.Instrs[0].Pos()), c.Text)
	}
	// automatic invariant for range-index loops
	var ri *ssa.Phi
	var riLen string
	for _, in := range h.Instrs {
		p, ok := in.(*ssa.Phi)
		if !ok {
			break
		}
		if p.Comment == "rangeindex" {
			ri = p
		}
	}
	if ri != nil {
		// find the length: the header compares ri+1 < len
		for _, in := range h.Instrs {
			if bo, ok := in.(*ssa.BinOp); ok && bo.Op == token.LSS {
				if lv, ok := fr.vals[bo.Y]; ok {
					riLen = lv.t
				}
			}
		}
	}
	// 2. havoc
	ns := st.clone()
	mods, all := fr.modifiedIn(li)
	if all {
		for k := range u.initHeap {
			if !strings.HasPrefix(k, "C:") {
				if _, ok := mods[k]; !ok {
					mods[k] = nil
				}
			}
		}
		u.abstract("loop-havoc-all")
	}
	fr.havocNames(mods, st, ns, "loop", reach)
	seenPT := map[string]bool{}
	for _, pt := range li.precise {
		key := fmt.Sprintf("%p.%v", pt.root, pt.fields)
		if seenPT[key] {
			continue
		}
		seenPT[key] = true
		pv := fr.valOf(pt.root)
		lv := fr.ptrLV(pv, pt.root.Type())
		cont := pt.root.Type().Underlying().(*types.Pointer).Elem()
		for _, f := range pt.fields {
			ft := cont.Underlying().(*types.Struct).Field(f).Type()
			lv = lv.extendField(f, cont, ft)
			cont = ft
		}
		if _, whole := ns.h[lv.name]; whole && ns.h[lv.name] != st.h[lv.name] {
			continue // the whole heap was havocked anyway
		}
		nv := u.declare("loopfield", u.sorts.sortOf(cont))
		fr.assumeWF(cont, nv, ns, reach)
		u.write(ns, lv, nv)
	}
	na := u.declare("alloc@loop", "Int")
	u.assume(reach, fmt.Sprintf("(>= %s %s)", na, st.alloc))
	ns.alloc = na
	fr.flushMapWF(ns)
	for _, in := range h.Instrs {
		p, ok := in.(*ssa.Phi)
		if !ok {
			break
		}
		v := fr.unconstrained(p.Type(), "phi."+p.Comment+"@loop", ns, reach)
		fr.vals[p] = v
	}
	li.locksAtHead = u.heapGet(ns, "GH:locks", "(Array Int Int)")
	// 3. assume invariants
	hv := func(p *ssa.Phi) *Val { return fr.vals[p] }
	for _, c := range invs {
		args, ok := fr.loopEnv(li, c, hv, ns)
		if !ok {
			continue
		}
		u.assume(reach, fr.evalSpec(c, args, ns, nil))
	}
	// 4. invariants that hold by the shape of the loop
	before := u.abstracted["auto-invariant:search-loop"]
	fr.autoCounting(li, entryVal, ns, reach)
	fr.autoAppendOnly(li, entryVal, st, ns, reach)
	fr.autoSearched(li, ri, ns, reach)
	if fr.pendingNewLoop {
		fr.pendingNewLoop = false
		mods, _ := fr.modifiedIn(li)
		if u.abstracted["auto-invariant:search-loop"] == before || len(mods) > 0 || len(invs) > 0 {
			if u.newLoopAt == 0 {
				u.newLoopAt = len(u.cmds) + 1
			}
			u.newLoops = append(u.newLoops, fmt.Sprintf("%s: loop %d of %s has no invariant (the function has more loops than on the recorded tree)", funcName(u.fn), li.ordinal, funcName(fr.fn)))
		}
	}
	// A loop that carries around an accumulator (slice, string, map) which the recorded version of the function did not
	// have, and for which nobody can have written an invariant: what fails after it is undecided, like after a new loop.
	// (Only where the function's loops are the recorded ones: a function that has gained loops is judged by the new-loop
	// rule above, which is deliberately narrower.)
	if (fr.fn == u.fn || fr.parent != nil) && !u.eng.loopsNew(fr.fn) {
		for _, in := range h.Instrs {
			p, ok := in.(*ssa.Phi)
			if !ok {
				break
			}
			switch p.Type().Underlying().(type) {
			case *types.Slice, *types.Map:
			case *types.Basic:
				if p.Type().Underlying().(*types.Basic).Info()&types.IsString == 0 {
					continue
				}
			default:
				continue
			}
			if p.Comment == "" || p.Comment == "rangeindex" || !u.eng.newAccumulator(fr.fn, p.Comment) {
				continue
			}
			named := false
			for _, c := range invs {
				for _, v := range c.VarLocal {
					if strings.TrimSuffix(v, "?") == p.Comment {
						named = true
					}
				}
			}
			if named {
				continue
			}
			if u.newAccAt == 0 {
				u.newAccAt = len(u.cmds) + 1
			}
			u.newLoops = append(u.newLoops, fmt.Sprintf("%s: loop %d of %s carries `%s`, a variable the recorded function did not have (no invariant can exist for it; inconclusive answers after it are undecided)", funcName(u.fn), li.ordinal, funcName(fr.fn), p.Comment))
		}
	}
	if ri != nil && riLen != "" {
		ev := entryVal(ri)
		u.oblige(fr.obName("inv-init", fmt.Sprintf("loop%d.rangeindex", li.ordinal)), "inv-init", nil, reach,
			fmt.Sprintf("(and (<= (- 1) %s) (< %s (+ %s 1)))", ev.t, ev.t, riLen)+"", fr.pos(h.Instrs[0].Pos()), "auto: -1 <= rangeindex <= len-1 (entry)")
		u.assume(reach, fmt.Sprintf("(and (<= (- 1) %s) (< %s %s))", fr.vals[ri].t, fr.vals[ri].t, riLen))
	}
	return ns
}

// rangesOverTable: the loop is a range loop over something whose length is fixed in the source: an array, a slice
// literal written in the function, or a package-level variable initialised with a slice literal.
func (fr *frame) rangesOverTable(li *loopInfo) bool {
	for _, in := range li.header.Instrs {
		bo, ok := in.(*ssa.BinOp)
		if !ok || bo.Op != token.LSS {
			continue
		}
		switch y := bo.Y.(type) {
		case *ssa.Const:
			return true // range over an array
		case *ssa.Call:
			b, isB := y.Call.Value.(*ssa.Builtin)
			if !isB || b.Name() != "len" || len(y.Call.Args) != 1 {
				return false
			}
			switch x := y.Call.Args[0].(type) {
			case *ssa.Slice:
				_, lit := x.X.(*ssa.Alloc)
				return lit
			case *ssa.UnOp:
				g, isG := x.X.(*ssa.Global)
				if x.Op != token.MUL || !isG || g.Pkg == nil {
					return false
				}
				init := g.Pkg.Func("init")
				if init == nil || fr.u.eng.assignedOutsideInit(g) != "" {
					return false
				}
				for _, blk := range init.Blocks {
					for _, ii := range blk.Instrs {
						if s, isS := ii.(*ssa.Store); isS && s.Addr == ssa.Value(g) {
							if sl, isSl := s.Val.(*ssa.Slice); isSl {
								if _, lit := sl.X.(*ssa.Alloc); lit {
									return true
								}
							}
						}
					}
				}
			}
		}
	}
	return false
}

func (fr *frame) loopBack(li *loopInfo, from *ssa.BasicBlock, st *State) {
	u := fr.u
	h := li.header
	ec := fr.edgeCond(from, h)
	edgeVal := func(p *ssa.Phi) *Val {
		for i, pr := range h.Preds {
			if pr == from {
				return &Val{t: fr.valTerm(fr.valOf(p.Edges[i]), st)}
			}
		}
		return fr.vals[p]
	}
	for _, c := range fr.loopInvariants(li) {
		args, ok := fr.loopEnv(li, c, edgeVal, st)
		if !ok {
			continue
		}
		t := fr.evalSpec(c, args, st, nil)
		u.oblige(fr.obName("inv-step", fmt.Sprintf("loop%d.%s", li.ordinal, c.Label)), "inv-step", c.Tags, ec, t, fr.pos(h.Instrs[0].Pos()), c.Text)
	}
	// locks: an iteration hands back every lock it took (a `defer Unlock()` inside a loop body runs at function exit, not at
	// the end of the iteration - the second iteration then locks what the first still holds)
	if u.locksUsed && li.locksAtHead != "" {
		u.oblige(fr.obName("lock-balanced", fmt.Sprintf("loop%d", li.ordinal)), "lock", []string{"C20", "C19"}, ec,
			fmt.Sprintf("(= %s %s)", u.heapGet(st, "GH:locks", "(Array Int Int)"), li.locksAtHead), fr.pos(h.Instrs[0].Pos()),
			"every lock taken in a loop iteration is released before the next one starts")
	}
}


// havocNames replaces the heaps named in mods by fresh versions in ns (st is the state before).
// Names prefixed HF:/EF: mean "only objects allocated from now on are written": such heaps keep the
// contents of every object that existed before (frame condition relative to the allocation counter).
func (fr *frame) havocNames(mods ModSet, st *State, ns *State, why, reach string) {
	u := fr.u
	var mk []string
	for k := range mods {
		mk = append(mk, k)
	}
	sort.Strings(mk)
	done := map[string]bool{}
	for _, k := range mk {
		if k == "*" || strings.HasPrefix(k, "P:") || strings.HasPrefix(k, "PE:") || strings.HasPrefix(k, "PF:") {
			continue
		}
		real, fresh := k, false
		if strings.HasPrefix(k, "HF:") || strings.HasPrefix(k, "EF:") {
			real, fresh = k[:1]+k[2:], true
			if _, also := mods[real]; also {
				continue // a general write to the same heap exists
			}
		}
		if done[real] {
			continue
		}
		done[real] = true
		srt, ok := u.heapSort[real]
		if !ok {
			if mods[k] == nil {
				continue
			}
			srt = u.modSort(real, mods[k])
			u.heapGet(st, real, srt) // materialise the pre-state version first
		}
		old := u.heapGet(st, real, srt)
		nv := u.declare(real+"@"+why, srt)
		ns.h[real] = nv
		if ks, ok := u.distinctHeaps[real]; ok {
			u.pendingMapWF = append(u.pendingMapWF, [2]string{nv, ks})
		}
		if fresh {
			r := u.fresh("r")
			u.assume("true", fmt.Sprintf("(forall ((%s Int)) (! (=> (< %s %s) (= (select %s %s) (select %s %s))) :pattern ((select %s %s))))", r, r, st.alloc, nv, r, old, r, nv, r))
		}
	}
}


type preciseTarget struct {
	root   ssa.Value
	fields []int
}

// fieldChain: addr = &root.f1.f2 (struct fields only, through one pointer) -> root pointer value, [f1 f2].
func fieldChain(addr ssa.Value) (ssa.Value, []int, bool) {
	var fields []int
	cur := addr
	for {
		fa, ok := cur.(*ssa.FieldAddr)
		if !ok {
			break
		}
		fields = append([]int{fa.Field}, fields...)
		cur = fa.X
	}
	if len(fields) == 0 {
		return nil, nil, false
	}
	if _, ok := cur.Type().Underlying().(*types.Pointer); !ok {
		return nil, nil, false
	}
	return cur, fields, true
}

func (fr *frame) definedOutside(v ssa.Value, li *loopInfo) bool {
	switch x := v.(type) {
	case *ssa.Parameter, *ssa.FreeVar, *ssa.Global, *ssa.Const:
		return true
	case ssa.Instruction:
		if a, ok := v.(*ssa.Alloc); ok && !a.Heap {
			return false // local cells are handled by name
		}
		return x.Block() != nil && !li.body[x.Block().Index]
	}
	return false
}

// rootAlloc returns the allocation instruction an address is rooted at, if any.
func rootAlloc(addr ssa.Value) ssa.Instruction {
	for {
		switch x := addr.(type) {
		case *ssa.FieldAddr:
			addr = x.X
		case *ssa.IndexAddr:
			addr = x.X
		case *ssa.Alloc:
			return x
		case *ssa.MakeSlice:
			return x
		default:
			return nil
		}
	}
}

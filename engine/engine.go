package main

import (
	"go/token"
	"fmt"
	"go/types"
	"os"
	"sort"
	"strings"

	"golang.org/x/tools/go/ssa"
)

type Engine struct {
	L         *Loaded
	contracts map[string]*Contract       // by funcName
	externs   map[string]*ExternContract // by extern key
	funcs     map[string]*ssa.Function   // all /repo functions by funcName
	funcIDs   map[*ssa.Function]int
	modsets   map[*ssa.Function]ModSet
	modBusy   map[*ssa.Function]bool
	wrap64    map[*ssa.Function]bool
	atomic    map[*ssa.Function]bool
	stale     []string
	axioms    []string
	axiomDefs []*Axiom
	globalInvs []*GlobalInv
	mapInv    map[string]string
	accCache  map[string][]accessorImpl
	typeInv   map[string]string
	guards    map[string]string // "pkg.Type.field" -> lock field name
	sharedCfg map[string]bool   // "pkg.Type": objects shared by concurrent requests (sharedconfig)
	overlay   map[string][]byte // synthesised spec files (for executable contracts in replays)
	broken    map[string]string // synthesised clause functions that no longer type-check
	keySorts  *Sorts // only for typeKey computations that must be unit independent
	dispatch    []*DispatchCheck
	curSigs     map[string]map[string]*funcSig
	funcBase    funcBaseline
	loopBase    map[string][]loopRec
	panics      map[*ssa.Function]bool
	tables      map[*ssa.Global][]*ssa.Const
	scalars     map[*ssa.Global]*ssa.Const
	initExprs   map[*ssa.Global]*initExpr
	allBaseline map[string]bool
	trivialAnchors []string // assert obligations that were trivially true at their site (the site exists)
	scalarSeen  map[*ssa.Global]bool
	renamedBare map[string]string // functions under contract that were renamed: old bare name -> new bare name
	renamedNew  map[string]string // new funcName -> old funcName (for baseline lookups)
	renamedKey  map[string]string // the same by funcName: "saml.old" -> "saml.new", "(*saml.T).old" -> "saml.new"
}

// anchorNameIs: does an anchor written for callee `name` denote a call labelled `label` (directly, or because the
// function under contract of that name was renamed to it)?
func (e *Engine) anchorNameIs(name, label string) bool {
	if name == label {
		return true
	}
	if n, ok := e.renamedBare[name]; ok && n == label {
		return true
	}
	return false
}

func newEngine(l *Loaded) *Engine {
	e := &Engine{L: l, contracts: map[string]*Contract{}, externs: map[string]*ExternContract{}, funcs: map[string]*ssa.Function{},
		funcIDs: map[*ssa.Function]int{}, modsets: map[*ssa.Function]ModSet{}, modBusy: map[*ssa.Function]bool{}, wrap64: map[*ssa.Function]bool{},
		keySorts: newSorts(), mapInv: map[string]string{}, accCache: map[string][]accessorImpl{}, typeInv: map[string]string{}, guards: map[string]string{}, sharedCfg: map[string]bool{},
		renamedBare: map[string]string{}, renamedKey: map[string]string{}, renamedNew: map[string]string{}, panics: map[*ssa.Function]bool{}, tables: map[*ssa.Global][]*ssa.Const{}}
	for _, sp := range l.SSA {
		if sp == nil {
			continue
		}
		for _, m := range sp.Members {
			switch x := m.(type) {
			case *ssa.Function:
				e.addFunc(x)
			case *ssa.Type:
				for _, t := range []types.Type{x.Type(), types.NewPointer(x.Type())} {
					ms := l.Prog.MethodSets.MethodSet(t)
					for i := 0; i < ms.Len(); i++ {
						if f := l.Prog.MethodValue(ms.At(i)); f != nil && f.Synthetic == "" {
							e.addFunc(f)
						}
					}
				}
			}
		}
	}
	return e
}

func (e *Engine) addFunc(f *ssa.Function) {
	if _, ok := e.funcs[funcName(f)]; ok {
		return
	}
	e.funcs[funcName(f)] = f
	for _, a := range f.AnonFuncs {
		e.addFunc(a)
	}
}

func (e *Engine) funcID(f *ssa.Function) int {
	if id, ok := e.funcIDs[f]; ok {
		return id
	}
	id := len(e.funcIDs) + 1
	e.funcIDs[f] = id
	return id
}

// storeRoot resolves the root location an address expression writes to (static approximation).
func (e *Engine) storeRoot(addr ssa.Value, fn *ssa.Function, prefix string) (string, types.Type) {
	ks := e.keySorts
	switch x := addr.(type) {
	case *ssa.FieldAddr:
		// a field (path) of an object a parameter points to: keep the path for a precise frame
		if path, pi, ok := paramFieldPath(x, fn); ok {
			return fmt.Sprintf("PF:%d:%s", pi, path), x.Type().Underlying().(*types.Pointer).Elem()
		}
		return e.storeRoot(x.X, fn, prefix)
	case *ssa.IndexAddr:
		if sl, ok := x.X.Type().Underlying().(*types.Slice); ok {
			if _, fresh := x.X.(*ssa.MakeSlice); fresh {
				// writes into a slice allocated by this very function touch only new memory
				return "EF:" + ks.typeKey(sl.Elem()), sl.Elem()
			}
			return "E:" + ks.typeKey(sl.Elem()), sl.Elem()
		}
		return e.storeRoot(x.X, fn, prefix)
	case *ssa.Alloc:
		et := x.Type().Underlying().(*types.Pointer).Elem()
		if !x.Heap {
			return fmt.Sprintf("C:%s%s.%s.%d", prefix, funcName(fn), x.Comment, indexOfLocal(fn, x)), et
		}
		return "HF:" + ks.typeKey(et), et
	case *ssa.Global:
		et := x.Type().Underlying().(*types.Pointer).Elem()
		return "G:" + x.Pkg.Pkg.Path() + "." + x.Name(), et
	case *ssa.Parameter:
		for i, p := range fn.Params {
			if p == x {
				return fmt.Sprintf("P:%d", i), x.Type()
			}
		}
	case *ssa.MakeInterface:
		return e.storeRoot(x.X, fn, prefix)
	case *ssa.ChangeType:
		return e.storeRoot(x.X, fn, prefix)
	case *ssa.Slice:
		if sl, ok := x.Type().Underlying().(*types.Slice); ok {
			return "E:" + ks.typeKey(sl.Elem()), sl.Elem()
		}
	}
	switch t := addr.Type().Underlying().(type) {
	case *types.Pointer:
		return "H:" + ks.typeKey(t.Elem()), t.Elem()
	case *types.Slice:
		return "E:" + ks.typeKey(t.Elem()), t.Elem()
	}
	return "*", nil
}

func (e *Engine) storeTarget(addr ssa.Value, fr *frame, names ModSet) {
	name, t := e.storeRoot(addr, fr.fn, fr.prefix)
	if strings.HasPrefix(name, "P:") || strings.HasPrefix(name, "PF:") {
		var i int
		if strings.HasPrefix(name, "PF:") {
			fmt.Sscanf(name, "PF:%d:", &i)
		} else {
			fmt.Sscanf(name, "P:%d", &i)
		}
		e.paramTarget(fr, i, names)
		return
	}
	names[name] = t
}

// paramTarget: the location a parameter of the current frame points to.
func (e *Engine) paramTarget(fr *frame, i int, names ModSet) {
	p := fr.fn.Params[i]
	if v, ok := fr.vals[p]; ok && v.lv != nil {
		names[v.lv.name] = v.lv.rootT
		return
	}
	if v, ok := fr.vals[p]; ok && v.boxed != nil && v.boxed.lv != nil {
		names[v.boxed.lv.name] = v.boxed.lv.rootT
		return
	}
	switch t := p.Type().Underlying().(type) {
	case *types.Pointer:
		names["H:"+e.keySorts.typeKey(t.Elem())] = t.Elem()
	case *types.Slice:
		names["E:"+e.keySorts.typeKey(t.Elem())] = t.Elem()
	default:
		names["*"] = nil
	}
}

// callMods: what a call instruction inside the current frame may modify, in the frame's own names.
func (e *Engine) callMods(c *ssa.CallCommon, fr *frame) ModSet {
	res := ModSet{}
	if name := fr.builderCallName(c); name != "" {
		if m := c.StaticCallee().Name(); m != "String" {
			// content, and the two cells that remember where Len() was last taken (builderCall)
			if m != "Len" {
				res[name] = types.Typ[types.String]
			}
			res[name+"#m"] = types.Typ[types.String]
			res[name+"#s"] = types.Typ[types.String]
		}
		return res
	}
	var ms ModSet
	var argVals []ssa.Value
	if c.IsInvoke() {
		if ec := e.externs[c.Method.FullName()]; ec != nil {
			ms = ec.modSet()
		}
		argVals = append([]ssa.Value{c.Value}, c.Args...)
	} else {
		argVals = c.Args
		switch v := c.Value.(type) {
		case *ssa.Builtin:
			if v.Name() == "copy" || (v.Name() == "clear" && isSliceType(c.Args[0].Type())) {
				ms = ModSet{"PE:0": nil}
			}
			if v.Name() == "delete" {
				mt := c.Args[0].Type().Underlying().(*types.Map)
				pn, _, _, _ := fr.mapHeaps(mt)
				res[pn] = mt
			}
		case *ssa.Function:
			ms = e.calleeModsAt(v, c)
		case *ssa.MakeClosure:
			ms = e.calleeMods(v.Fn.(*ssa.Function))
		default:
			if ec := e.externs[funcValueKey(fr, c.Value)]; ec != nil {
				ms = ec.modSet()
			}
		}
	}
	for k, t := range ms {
		switch {
		case strings.HasPrefix(k, "P:") || strings.HasPrefix(k, "PE:") || strings.HasPrefix(k, "PF:"):
			var i int
			if strings.HasPrefix(k, "PE:") {
				fmt.Sscanf(k, "PE:%d", &i)
			} else if strings.HasPrefix(k, "PF:") {
				fmt.Sscanf(k, "PF:%d:", &i)
			} else {
				fmt.Sscanf(k, "P:%d", &i)
			}
			if i >= len(argVals) {
				res["*"] = nil
				continue
			}
			name, rt := e.storeRoot(argVals[i], fr.fn, fr.prefix)
			if strings.HasPrefix(name, "P:") || strings.HasPrefix(name, "PF:") {
				var j int
				if strings.HasPrefix(name, "PF:") {
					fmt.Sscanf(name, "PF:%d:", &j)
				} else {
					fmt.Sscanf(name, "P:%d", &j)
				}
				e.paramTarget(fr, j, res)
			} else {
				res[name] = rt
			}
		default:
			res[k] = t
		}
	}
	return res
}

func isSliceType(t types.Type) bool {
	_, ok := t.Underlying().(*types.Slice)
	return ok
}

// calleeModsAt: like calleeMods, but the modelled functions of package slices modify what their predicate modifies
// (nothing for Contains / Index).
func (e *Engine) calleeModsAt(fn *ssa.Function, c *ssa.CallCommon) ModSet {
	if p, n := stdGeneric(fn); (p == "cmp" && n == "Or") || (p == "slices" && n == "Concat") {
		return nil
	}
	switch slicesFunc(fn) {
	case "Contains", "Index":
		return nil
	case "ContainsFunc", "IndexFunc":
		if len(c.Args) == 2 {
			switch p := c.Args[1].(type) {
			case *ssa.MakeClosure:
				return e.calleeMods(p.Fn.(*ssa.Function))
			case *ssa.Function:
				return e.calleeMods(p)
			}
		}
		return ModSet{"*": nil}
	}
	return e.calleeMods(fn)
}

func (e *Engine) calleeMods(fn *ssa.Function) ModSet {
	if isRepoFunc(fn) || (fn.Synthetic != "" && len(fn.Blocks) > 0) {
		if len(fn.Blocks) == 0 {
			return nil
		}
		return e.modsetOf(fn)
	}
	if ec := e.externs[externKey(fn)]; ec != nil {
		return ec.modSet()
	}
	return nil
}

// modsetOf computes (transitively) what a /repo function may modify, in callee-relative names.
func (e *Engine) modsetOf(fn *ssa.Function) ModSet {
	if ms, ok := e.modsets[fn]; ok {
		return ms
	}
	if e.modBusy[fn] {
		return ModSet{}
	}
	e.modBusy[fn] = true
	defer delete(e.modBusy, fn)
	res := ModSet{}
	add := func(name string, t types.Type) {
		if strings.HasPrefix(name, "C:") {
			return
		}
		res[name] = t
	}
	tmp := &frame{fn: fn, u: &Unit{sorts: e.keySorts, eng: e}, vals: map[ssa.Value]*Val{}}
	for _, b := range fn.Blocks {
		for _, in := range b.Instrs {
			switch x := in.(type) {
			case *ssa.Store:
				name, t := e.storeRoot(x.Addr, fn, "")
				add(name, t)
			case *ssa.MapUpdate:
				mt := x.Map.Type().Underlying().(*types.Map)
				pn, _, vn, _ := tmp.mapHeaps(mt)
				add(pn, mt)
				add(vn, mt)
			case ssa.CallInstruction:
				c := x.Common()
				var ms ModSet
				var argVals []ssa.Value
				if c.IsInvoke() {
					if ec := e.externs[c.Method.FullName()]; ec != nil {
						ms = ec.modSet()
					}
					argVals = append([]ssa.Value{c.Value}, c.Args...)
				} else {
					argVals = c.Args
					switch v := c.Value.(type) {
					case *ssa.Builtin:
						if v.Name() == "copy" || (v.Name() == "clear" && isSliceType(c.Args[0].Type())) {
							ms = ModSet{"PE:0": nil}
						}
						if v.Name() == "delete" {
							mt := c.Args[0].Type().Underlying().(*types.Map)
							pn, _, _, _ := tmp.mapHeaps(mt)
							add(pn, mt)
						}
					case *ssa.Function:
						ms = e.calleeModsAt(v, c)
					case *ssa.MakeClosure:
						ms = e.calleeMods(v.Fn.(*ssa.Function))
					}
				}
				for k, t := range ms {
					if strings.HasPrefix(k, "P:") || strings.HasPrefix(k, "PE:") || strings.HasPrefix(k, "PF:") {
						var i int
						elems := strings.HasPrefix(k, "PE:")
						fpath := ""
						if elems {
							fmt.Sscanf(k, "PE:%d", &i)
						} else if strings.HasPrefix(k, "PF:") {
							fmt.Sscanf(k, "PF:%d:", &i)
							fpath = k[strings.Index(k[3:], ":")+4:]
						} else {
							fmt.Sscanf(k, "P:%d", &i)
						}
						if i >= len(argVals) {
							add("*", nil)
							continue
						}
						name, rt := e.storeRoot(argVals[i], fn, "")
						switch {
						case elems:
							if strings.HasPrefix(name, "P:") {
								name = "PE:" + name[2:]
							} else if sl, ok := argVals[i].Type().Underlying().(*types.Slice); ok {
								name, rt = "E:"+e.keySorts.typeKey(sl.Elem()), sl.Elem()
							}
						case fpath != "" && strings.HasPrefix(name, "P:"):
							name = "PF:" + name[2:] + ":" + fpath
							rt = t
						case fpath != "" && strings.HasPrefix(name, "PF:"):
							name = name + "." + fpath
							rt = t
						}
						add(name, rt)
					} else {
						add(k, t)
					}
				}
			}
		}
	}
	e.modsets[fn] = res
	return res
}

func (ms ModSet) String() string {
	var ks []string
	for k := range ms {
		ks = append(ks, k)
	}
	sort.Strings(ks)
	return strings.Join(ks, ",")
}

func (e *Engine) noteLoopMods(fr *frame, li *loopInfo, mods ModSet) {}

// allocHeaps adds the heaps in which fn (transitively) allocates objects: allocation writes the
// zero value into the heap, which is a modification from the point of view of a loop havoc.
func (e *Engine) allocHeaps(fn *ssa.Function, names ModSet, seen map[*ssa.Function]bool) {
	if seen[fn] {
		return
	}
	seen[fn] = true
	ks := e.keySorts
	for _, b := range fn.Blocks {
		for _, in := range b.Instrs {
			switch x := in.(type) {
			case *ssa.Alloc:
				if x.Heap {
					et := x.Type().Underlying().(*types.Pointer).Elem()
					names["HF:"+ks.typeKey(et)] = et
				}
			case *ssa.MakeSlice:
				et := x.Type().Underlying().(*types.Slice).Elem()
				names["EF:"+ks.typeKey(et)] = et
			case *ssa.Convert:
				if sl, ok := x.Type().Underlying().(*types.Slice); ok {
					names["EF:"+ks.typeKey(sl.Elem())] = sl.Elem()
				}
			case ssa.CallInstruction:
				c := x.Common()
				if bi, ok := c.Value.(*ssa.Builtin); ok && bi.Name() == "append" {
					if sl, ok := c.Args[0].Type().Underlying().(*types.Slice); ok {
						names["EF:"+ks.typeKey(sl.Elem())] = sl.Elem()
					}
				}
				if f := c.StaticCallee(); f != nil && isRepoFunc(f) && len(f.Blocks) > 0 {
					e.allocHeaps(f, names, seen)
				}
			}
		}
	}
}


type accessorImpl struct {
	recvT types.Type
	fn    *ssa.Function
}

// accessorImpls returns the /repo implementations of an interface method if every one of them is a
// small accessor (one block, no calls, no stores); otherwise nil.
func (e *Engine) accessorImpls(m *types.Func) []accessorImpl {
	key := m.FullName()
	if r, ok := e.accCache[key]; ok {
		return r
	}
	var res []accessorImpl
	ok := true
	var pkgPaths []string
	for p := range e.L.SSA {
		pkgPaths = append(pkgPaths, p)
	}
	sort.Strings(pkgPaths)
	sig := m.Type().(*types.Signature)
	for _, p := range pkgPaths {
		sp := e.L.SSA[p]
		if sp == nil {
			continue
		}
		var names []string
		for n := range sp.Members {
			names = append(names, n)
		}
		sort.Strings(names)
		for _, n := range names {
			tm, isT := sp.Members[n].(*ssa.Type)
			if !isT {
				continue
			}
			if _, isIface := tm.Type().Underlying().(*types.Interface); isIface {
				continue
			}
			for _, t := range []types.Type{tm.Type(), types.NewPointer(tm.Type())} {
				sel := e.L.Prog.MethodSets.MethodSet(t).Lookup(m.Pkg(), m.Name())
				if sel == nil {
					continue
				}
				fn := e.L.Prog.MethodValue(sel)
				if fn == nil {
					continue
				}
				fs := fn.Signature
				if !types.Identical(types.NewSignatureType(nil, nil, nil, fs.Params(), fs.Results(), fs.Variadic()), types.NewSignatureType(nil, nil, nil, sig.Params(), sig.Results(), sig.Variadic())) {
					continue
				}
				if !smallAccessor(fn) {
					if os.Getenv("GOVC_ACC") != "" {
						fmt.Println("not small:", fn, len(fn.Blocks))
					}
					ok = false
				}
				res = append(res, accessorImpl{recvT: t, fn: fn})
			}
		}
	}
	if !ok {
		res = nil
	}
	e.accCache[key] = res
	return res
}

func smallAccessor(fn *ssa.Function) bool {
	if len(fn.Blocks) != 1 || len(fn.Blocks[0].Instrs) > 8 {
		return false
	}
	for _, in := range fn.Blocks[0].Instrs {
		switch x := in.(type) {
		case *ssa.Store:
			if a, ok := x.Addr.(*ssa.Alloc); !ok || a.Heap {
				return false
			}
		case ssa.CallInstruction:
			// wrappers (*T).M calling T.M are fine
			c := x.Common()
			if b, ok := c.Value.(*ssa.Builtin); ok && (b.Name() == "ssa:wrapnilchk" || b.Name() == "len") {
				continue
			}
			f := c.StaticCallee()
			if f == nil || !smallAccessor(f) {
				return false
			}
		case *ssa.MapUpdate, *ssa.Go, *ssa.Defer, *ssa.Panic:
			return false
		}
	}
	return true
}

func (e *Engine) debugAccessors(name string) {
	for _, p := range e.L.Pkgs {
		if o := p.Types.Scope().Lookup(name); o != nil {
			if it, ok := o.Type().Underlying().(*types.Interface); ok {
				for i := 0; i < it.NumMethods(); i++ {
					m := it.Method(i)
					r := e.accessorImpls(m)
					fmt.Println(m.FullName(), len(r))
				}
			}
		}
	}
}


// paramFieldPath: addr = &param.f1.f2... (fields only) -> "f1.f2", param index.
// capturedParam: v is a load of the cell a parameter was moved into because a function literal captures it, and
// neither the function nor the literals assign to that variable again - so v is the parameter's value.
func capturedParam(v ssa.Value) *ssa.Parameter {
	ld, ok := v.(*ssa.UnOp)
	if !ok || ld.Op != token.MUL {
		return nil
	}
	cell, ok := ld.X.(*ssa.Alloc)
	if !ok || cell.Referrers() == nil {
		return nil
	}
	var param *ssa.Parameter
	for _, r := range *cell.Referrers() {
		switch x := r.(type) {
		case *ssa.Store:
			if x.Addr != ssa.Value(cell) {
				return nil // the cell's address is stored somewhere
			}
			p, isParam := x.Val.(*ssa.Parameter)
			if !isParam || param != nil {
				return nil
			}
			param = p
		case *ssa.UnOp, *ssa.DebugRef:
		case *ssa.MakeClosure:
			fn := x.Fn.(*ssa.Function)
			for i, b := range x.Bindings {
				if b != ssa.Value(cell) || i >= len(fn.FreeVars) {
					continue
				}
				fv := fn.FreeVars[i]
				if fv.Referrers() != nil {
					for _, fr := range *fv.Referrers() {
						switch y := fr.(type) {
						case *ssa.UnOp, *ssa.DebugRef:
						case *ssa.Store:
							if y.Addr == ssa.Value(fv) {
								return nil
							}
							return nil
						default:
							return nil
						}
					}
				}
			}
		default:
			return nil
		}
	}
	return param
}

func paramFieldPath(fa *ssa.FieldAddr, fn *ssa.Function) (string, int, bool) {
	var fields []string
	var cur ssa.Value = fa
	for {
		f, ok := cur.(*ssa.FieldAddr)
		if !ok {
			break
		}
		fields = append([]string{fmt.Sprint(f.Field)}, fields...)
		cur = f.X
	}
	p, ok := cur.(*ssa.Parameter)
	if !ok {
		p = capturedParam(cur)
		if p == nil {
			return "", 0, false
		}
	}
	for i, q := range fn.Params {
		if q == p {
			return strings.Join(fields, "."), i, true
		}
	}
	return "", 0, false
}


// assignedOutsideInit reports a /repo function (other than package initialisers) that stores to g.
func (e *Engine) assignedOutsideInit(g *ssa.Global) string {
	for name, fn := range e.funcs {
		if fn.Synthetic == "package initializer" || strings.HasPrefix(fn.Name(), "init#") || fn.Name() == "init" {
			continue
		}
		for _, b := range fn.Blocks {
			for _, in := range b.Instrs {
				if st, ok := in.(*ssa.Store); ok && st.Addr == g {
					return name
				}
			}
		}
	}
	return ""
}

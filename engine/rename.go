package main

import (
	"golang.org/x/tools/go/ssa"
	"encoding/json"
	"fmt"
	"os"
	"regexp"
	"sort"
	"strings"
)

// Contracts are kept in a file of their own and bound to functions by name. A verifier whose contracts sit on the
// functions themselves follows a rename for free; this file gives ours the same indifference. The baseline records, for
// every function of the four packages, its signature and the names it calls (baseline/functions.json, written from the
// unchanged tree by `govc functions`). When a function under contract is gone, a function that is new with respect to
// that record, has no contract of its own and calls (nearly) the same things is taken to be the same function under a
// new name or signature: the contract is re-bound to it, parameters are matched by name, then by type, then through a
// field of the old parameter (`req.IDP` -> `idp` when the helper now receives the field instead of the whole value).
// Clauses that cannot be re-bound no longer type-check and are dropped with a note (see DESIGN.md 2.3, stale clauses).
// Everything re-bound is proved again on the new body: a wrong guess can only fail, never pass something unproved.

type funcPrint struct {
	Params  []string `json:"params"`
	Results []string `json:"results"`
	Calls   []string `json:"calls"`
	Loops   int      `json:"loops"`
	Nest    string   `json:"nest"`
	Carried []string `json:"carried,omitempty"`
}

type funcBaseline map[string]map[string]*funcPrint // package dir -> raw key -> print

const funcBaselinePath = "/verif/baseline/functions.json"
const typeBaselinePath = "/verif/baseline/types.json"

func loadTypeBaseline() map[string]map[string][]string {
	tb := map[string]map[string][]string{}
	if data, err := os.ReadFile(typeBaselinePath); err == nil {
		json.Unmarshal(data, &tb)
	}
	return tb
}

func loadFuncBaseline() funcBaseline {
	fb := funcBaseline{}
	data, err := os.ReadFile(funcBaselinePath)
	if err != nil {
		return fb
	}
	json.Unmarshal(data, &fb)
	return fb
}

// cmdFunctions writes the function record of the current tree.
func cmdFunctions(args []string) {
	fb := funcBaseline{}
	for _, dir := range pkgDirs {
		sigs, _, err := scanPackage(repoDir + "/" + dir)
		if err != nil {
			fatal("%v", err)
		}
		m := map[string]*funcPrint{}
		for k, s := range sigs {
			if strings.Contains(k, "$") {
				continue
			}
			m[k] = &funcPrint{Params: s.params, Results: s.results, Calls: s.calls, Loops: s.loops, Nest: s.nest, Carried: s.carried}
		}
		fb[dir] = m
	}
	tb := map[string]map[string][]string{}
	for _, dir := range pkgDirs {
		tb[dir] = structShapes[repoDir+"/"+dir]
	}
	tout, _ := json.MarshalIndent(tb, "", " ")
	os.MkdirAll("/verif/baseline", 0o755)
	os.WriteFile(typeBaselinePath, append(tout, '\n'), 0o644)
	out, _ := json.MarshalIndent(fb, "", " ")
	os.MkdirAll("/verif/baseline", 0o755)
	if err := os.WriteFile(funcBaselinePath, append(out, '\n'), 0o644); err != nil {
		fatal("%v", err)
	}
	n := 0
	for _, m := range fb {
		n += len(m)
	}
	fmt.Printf("recorded %d functions in %s\n", n, funcBaselinePath)
}

func typeOfParam(p string) string {
	if i := strings.Index(p, " "); i >= 0 {
		return strings.TrimSpace(p[i+1:])
	}
	return p
}

func nameOfParam(p string) string {
	if i := strings.Index(p, " "); i >= 0 {
		return p[:i]
	}
	return p
}

func jaccard(a, b []string) float64 {
	sa, sb := map[string]bool{}, map[string]bool{}
	for _, x := range a {
		sa[x] = true
	}
	for _, x := range b {
		sb[x] = true
	}
	if len(sa) == 0 && len(sb) == 0 {
		return -1
	}
	inter := 0
	for x := range sa {
		if sb[x] {
			inter++
		}
	}
	return float64(inter) / float64(len(sa)+len(sb)-inter)
}

func sigTypes(params, results []string) []string {
	var ts []string
	for _, p := range params {
		ts = append(ts, "p:"+typeOfParam(p))
	}
	for _, r := range results {
		ts = append(ts, "r:"+typeOfParam(r))
	}
	return ts
}

type rebinding struct {
	Dir, Old, New string
	Prologue      string            // alias statements placed before the clause in every synthesised function
	Subst         map[string]string // textual substitutions in clauses: "req.IDP" -> "idp"
	Note          string
}

// findRenamed picks the function the missing contract target was renamed to, or returns nil.
func findRenamed(dir, raw string, old *funcPrint, sigs map[string]*funcSig, fb funcBaseline, taken map[string]bool, structs map[string]map[string]string) *rebinding {
	if old == nil {
		return nil
	}
	type cand struct {
		key   string
		score float64
	}
	var cands []cand
	for k, s := range sigs {
		if strings.Contains(k, "$") || taken[k] || fb[dir][k] != nil {
			continue
		}
		jc := jaccard(old.Calls, s.calls)
		js := jaccard(sigTypes(old.Params, old.Results), sigTypes(s.params, s.results))
		if js < 0 {
			js = 1
		}
		var score float64
		if jc < 0 {
			score = js // neither calls anything: the signature decides
		} else {
			score = 0.75*jc + 0.25*js
		}
		cands = append(cands, cand{k, score})
	}
	sort.Slice(cands, func(i, j int) bool {
		if cands[i].score != cands[j].score {
			return cands[i].score > cands[j].score
		}
		return cands[i].key < cands[j].key
	})
	if len(cands) == 0 || cands[0].score < 0.5 || (len(cands) > 1 && cands[0].score-cands[1].score < 0.15) {
		return nil
	}
	nw := sigs[cands[0].key]
	rb := &rebinding{Dir: dir, Old: raw, New: cands[0].key, Subst: map[string]string{}}
	// parameters: same name and type -> nothing to do; otherwise match by type, then through a field
	newByName := map[string]string{}
	for _, p := range nw.params {
		newByName[nameOfParam(p)] = typeOfParam(p)
	}
	usedNew := map[string]bool{}
	var unmatchedOld []string
	for _, p := range old.Params {
		n, t := nameOfParam(p), typeOfParam(p)
		if nt, ok := newByName[n]; ok && nt == t {
			usedNew[n] = true
			continue
		}
		unmatchedOld = append(unmatchedOld, p)
	}
	var notes []string
	for _, p := range unmatchedOld {
		n, t := nameOfParam(p), typeOfParam(p)
		if _, clash := newByName[n]; clash {
			continue // the name now means something else: clauses that use it go stale
		}
		var same []string
		for _, q := range nw.params {
			if !usedNew[nameOfParam(q)] && typeOfParam(q) == t {
				same = append(same, nameOfParam(q))
			}
		}
		if len(same) == 1 {
			usedNew[same[0]] = true
			rb.Prologue += fmt.Sprintf("%s := %s; _ = %s; ", n, same[0], n)
			notes = append(notes, n+" -> "+same[0])
			continue
		}
		// through a field: old parameter of struct type T (or *T) whose field f has exactly the type of an unmatched new parameter
		tn := strings.TrimPrefix(t, "*")
		if fields, ok := structs[tn]; ok {
			for _, q := range nw.params {
				qn, qt := nameOfParam(q), typeOfParam(q)
				if usedNew[qn] {
					continue
				}
				var via []string
				for f, ft := range fields {
					if ft == qt {
						via = append(via, f)
					}
				}
				if len(via) == 1 {
					usedNew[qn] = true
					rb.Subst[n+"."+via[0]] = qn
					notes = append(notes, n+"."+via[0]+" -> "+qn)
				}
			}
		}
	}
	// one parameter left over on each side: the same parameter under a new name and type (clauses that depend on the old
	// type go stale one by one)
	var leftOld, leftNew []string
	for _, p := range unmatchedOld {
		n := nameOfParam(p)
		if _, clash := newByName[n]; clash {
			continue
		}
		aliased := strings.Contains(rb.Prologue, n+" := ")
		for from := range rb.Subst {
			if strings.HasPrefix(from, n+".") {
				aliased = true
			}
		}
		if !aliased {
			leftOld = append(leftOld, n)
		}
	}
	for _, q := range nw.params {
		if !usedNew[nameOfParam(q)] {
			leftNew = append(leftNew, nameOfParam(q))
		}
	}
	if len(leftOld) == 1 && len(leftNew) == 1 {
		rb.Prologue += fmt.Sprintf("%s := %s; _ = %s; ", leftOld[0], leftNew[0], leftOld[0])
		notes = append(notes, leftOld[0]+" -> "+leftNew[0]+" (type changed)")
	}
	rb.Note = fmt.Sprintf("contract of %s re-bound to %s (renamed or re-signatured; similarity %.2f)", raw, rb.New, cands[0].score)
	if len(notes) > 0 {
		rb.Note += " [" + strings.Join(notes, ", ") + "]"
	}
	return rb
}

// apply rewrites a clause for the re-bound function.
func (rb *rebinding) apply(text string) string {
	if rb == nil {
		return text
	}
	for from, to := range rb.Subst {
		text = regexp.MustCompile(`\b`+regexp.QuoteMeta(from)+`\b`).ReplaceAllString(text, to)
	}
	return text
}

// rawKeyOf: package directory and declaration key ("(*T).M", "F") of a /repo function; function literals map to the
// function they are written in.
func rawKeyOf(fn *ssa.Function) (string, string, bool) {
	for fn.Parent() != nil {
		fn = fn.Parent()
	}
	if fn.Pkg == nil || fn.Pkg.Pkg == nil {
		return "", "", false
	}
	path := fn.Pkg.Pkg.Path()
	if path != modPath && !strings.HasPrefix(path, modPath+"/") {
		return "", "", false
	}
	dir := strings.TrimPrefix(strings.TrimPrefix(path, modPath), "/")
	name := funcName(fn) // saml.F, (*saml.T).M, (samlsp.T).M
	if i := strings.Index(name, "#"); i > 0 {
		name = name[:i] // init#1, init#2: the declared init functions
	}
	short := pkgShort(dir)
	key := name
	if strings.HasPrefix(name, "(") {
		key = strings.Replace(name, short+".", "", 1)
	} else {
		key = strings.TrimPrefix(name, short+".")
	}
	return dir, key, true
}

// loopsNew: the function has more loops than the record of the unchanged tree knows of (or is not in that record): a
// loop in it that no invariant - written or by construction - describes was not there when the proofs were made.
func (e *Engine) loopsNew(fn *ssa.Function) bool {
	dir, key, ok := rawKeyOf(fn)
	if !ok || e.funcBase == nil || e.curSigs == nil {
		return false
	}
	cur := e.curSigs[dir][key]
	if cur == nil {
		return false
	}
	if nk, renamed := e.renamedNew[contractKey(dir, key)]; renamed {
		_ = nk
	}
	old := e.funcBase[dir][key]
	if old == nil {
		// renamed functions keep the record of their old name
		for o, n := range e.renamedKey {
			if n == contractKey(dir, key) {
				for k2, fp := range e.funcBase[dir] {
					if contractKey(dir, k2) == o {
						old = fp
					}
				}
			}
		}
	}
	if old == nil {
		return cur.loops > 0
	}
	return cur.loops > old.Loops || cur.nest != old.Nest
}

// loopsRestructured: the nesting of the function's loops differs from the record - invariants bound to loops by ordinal
// no longer know which loop they are about.
func (e *Engine) loopsRestructured(fn *ssa.Function) bool {
	dir, key, ok := rawKeyOf(fn)
	if !ok || e.funcBase == nil || e.curSigs == nil {
		return false
	}
	cur, old := e.curSigs[dir][key], e.funcBase[dir][key]
	return cur != nil && old != nil && cur.nest != old.Nest
}

func bareName(raw string) string {
	if i := strings.LastIndex(raw, ")."); i >= 0 {
		return raw[i+2:]
	}
	return raw
}

// newAccumulator: name is a variable the loops of fn carry around that the recorded version of the function did not
// have (by name). False when the function is not in the record.
func (e *Engine) newAccumulator(fn *ssa.Function, name string) bool {
	dir, key, ok := rawKeyOf(fn)
	if !ok || e.funcBase == nil {
		return false
	}
	old := e.funcBase[dir][key]
	if old == nil {
		for o, n := range e.renamedKey {
			if n == contractKey(dir, key) {
				for k2, fp := range e.funcBase[dir] {
					if contractKey(dir, k2) == o {
						old = fp
					}
				}
			}
		}
	}
	if old == nil {
		return false
	}
	for _, c := range old.Carried {
		if c == name {
			return false
		}
	}
	return true
}

package main

import (
	"fmt"
	"go/constant"
	"go/types"
	"strings"

	"golang.org/x/tools/go/ssa"
)

// A local strings.Builder that is only ever written with WriteString / WriteByte and read with String / Len (never
// handed to anyone as an io.Writer, never copied) is a string accumulator: its content is tracked exactly, in a cell of
// its own, so that `q := a + b; q += c` and `var q strings.Builder; q.WriteString(a) ...; q.String()` mean the same to
// the verifier. Any other builder keeps the opaque treatment (String() is a pure function of the builder's value).

var sbMethods = map[string]bool{"WriteString": true, "WriteByte": true, "String": true, "Len": true, "Reset": true, "Grow": true}

func isStringsBuilderPtr(t types.Type) bool {
	p, ok := t.Underlying().(*types.Pointer)
	if !ok {
		return false
	}
	n, ok := p.Elem().(*types.Named)
	return ok && n.Obj().Pkg() != nil && n.Obj().Pkg().Path() == "strings" && n.Obj().Name() == "Builder"
}

// localBuilder returns the name of the content cell of such a builder, or "".
func (fr *frame) localBuilder(v ssa.Value) string {
	a, ok := v.(*ssa.Alloc)
	if !ok || !isStringsBuilderPtr(a.Type()) || a.Referrers() == nil || a.Block() == nil {
		return ""
	}
	for _, r := range *a.Referrers() {
		switch x := r.(type) {
		case *ssa.DebugRef:
			continue
		case *ssa.Call:
			f := x.Call.StaticCallee()
			if f == nil || x.Call.IsInvoke() || len(x.Call.Args) == 0 || x.Call.Args[0] != v || !sbMethods[f.Name()] ||
				f.Signature.Recv() == nil || !isStringsBuilderPtr(f.Signature.Recv().Type()) {
				return ""
			}
			for _, o := range x.Call.Args[1:] {
				if o == v {
					return ""
				}
			}
		default:
			return ""
		}
	}
	idx := 0
	for i, in := range a.Block().Instrs {
		if in == a {
			idx = i
		}
	}
	return fmt.Sprintf("SB:%s%s.%s.%d.%d", fr.prefix, funcName(fr.fn), a.Comment, a.Block().Index, idx)
}

// builderCall: the modelled method of a local builder named by cell `name`.
func (fr *frame) builderCall(name, method string, args []*Val, st *State) *Val {
	u := fr.u
	cur := u.heapGet(st, name, "String")
	switch method {
	case "WriteString":
		s := fr.valTerm(args[1], st)
		u.heapSet(st, name, "String", fmt.Sprintf("(str.++ %s %s)", cur, s))
		return &Val{tuple: []*Val{{t: fmt.Sprintf("(str.len %s)", s)}, {t: "(mk-iface 0 0)"}}}
	case "WriteByte":
		u.heapSet(st, name, "String", fmt.Sprintf("(str.++ %s (str.from_code %s))", cur, fr.valTerm(args[1], st)))
		return &Val{t: "(mk-iface 0 0)"}
	case "String":
		return &Val{t: cur}
	case "Len":
		return &Val{t: fmt.Sprintf("(str.len %s)", cur)}
	case "Reset":
		u.heapSet(st, name, "String", "\"\"")
	}
	return &Val{t: "0"}
}

// builderCallName: for a call instruction, the content cell it operates on (modelled method of a local builder), or "".
func (fr *frame) builderCallName(c *ssa.CallCommon) string {
	if c.IsInvoke() || len(c.Args) == 0 {
		return ""
	}
	f := c.StaticCallee()
	if f == nil || !sbMethods[f.Name()] || f.Signature.Recv() == nil || !isStringsBuilderPtr(f.Signature.Recv().Type()) {
		return ""
	}
	return fr.localBuilder(c.Args[0])
}

// nativeSprintf gives fmt.Sprintf its meaning when the format is a constant made of literal text and the verbs %s %d %v
// (and %%), and every argument is, statically, a string or an integer placed directly in the call's argument list: the
// result is the concatenation. Anything else keeps the default treatment (an arbitrary string).
func (fr *frame) nativeSprintf(c *ssa.CallCommon, st *State) *Val {
	if c == nil || len(c.Args) != 2 {
		return nil
	}
	fc, ok := c.Args[0].(*ssa.Const)
	if !ok || fc.Value == nil || fc.Value.Kind() != constant.String {
		return nil
	}
	format := constant.StringVal(fc.Value)
	// the variadic arguments: a slice of a local array filled by constant-index stores
	var elems []ssa.Value
	switch a := c.Args[1].(type) {
	case *ssa.Const:
		// no arguments (nil slice)
	case *ssa.Slice:
		arr, ok := a.X.(*ssa.Alloc)
		if !ok || a.Low != nil || a.High != nil || arr.Referrers() == nil {
			return nil
		}
		at, ok := arr.Type().Underlying().(*types.Pointer).Elem().Underlying().(*types.Array)
		if !ok {
			return nil
		}
		elems = make([]ssa.Value, at.Len())
		for _, r := range *arr.Referrers() {
			ia, ok := r.(*ssa.IndexAddr)
			if !ok {
				if r == ssa.Instruction(a) {
					continue
				}
				if _, isDbg := r.(*ssa.DebugRef); isDbg {
					continue
				}
				return nil
			}
			k, ok := ia.Index.(*ssa.Const)
			if !ok || ia.Referrers() == nil {
				return nil
			}
			idx, ok := constant.Int64Val(k.Value)
			if !ok || idx < 0 || int(idx) >= len(elems) {
				return nil
			}
			for _, rr := range *ia.Referrers() {
				s, ok := rr.(*ssa.Store)
				if !ok || s.Addr != ssa.Value(ia) {
					return nil
				}
				mi, ok := s.Val.(*ssa.MakeInterface)
				if !ok {
					return nil
				}
				elems[idx] = mi.X
			}
		}
		for _, e := range elems {
			if e == nil {
				return nil
			}
		}
	default:
		return nil
	}
	var parts []string
	lit := ""
	flush := func() {
		if lit != "" {
			parts = append(parts, smtString(lit))
			lit = ""
		}
	}
	next := 0
	for i := 0; i < len(format); i++ {
		ch := format[i]
		if ch != '%' {
			lit += string(ch)
			continue
		}
		if i+1 >= len(format) {
			return nil
		}
		i++
		verb := format[i]
		if verb == '%' {
			lit += "%"
			continue
		}
		if verb != 's' && verb != 'd' && verb != 'v' {
			return nil
		}
		if next >= len(elems) {
			return nil
		}
		e := elems[next]
		next++
		b, ok := e.Type().Underlying().(*types.Basic)
		if !ok {
			return nil
		}
		flush()
		v := fr.valTerm(fr.valOf(e), st)
		switch {
		case b.Info()&types.IsString != 0 && (verb == 's' || verb == 'v'):
			parts = append(parts, v)
		case b.Info()&types.IsInteger != 0 && (verb == 'd' || verb == 'v'):
			parts = append(parts, fmt.Sprintf("(ite (< %s 0) (str.++ \"-\" (str.from_int (- %s))) (str.from_int %s))", v, v, v))
		default:
			return nil
		}
	}
	if next != len(elems) {
		return nil
	}
	flush()
	switch len(parts) {
	case 0:
		return &Val{t: "\"\""}
	case 1:
		return &Val{t: parts[0]}
	}
	return &Val{t: fr.defSort("sprintf", "String", "(str.++ "+strings.Join(parts, " ")+")")}
}

// slicesFunc: the name of the function of package slices that fn is (an instantiation of), or "".
func slicesFunc(fn *ssa.Function) string {
	o := fn
	if fn.Origin() != nil {
		o = fn.Origin()
	}
	if o.Pkg == nil || o.Pkg.Pkg == nil || o.Pkg.Pkg.Path() != "slices" {
		return ""
	}
	return o.Name()
}

// nativeSlices gives slices.Contains / ContainsFunc / Index / IndexFunc their meaning (first position at which the
// element equals v / satisfies the side-effect-free predicate f, -1 if none), so that a hand-written search loop and
// the library call are the same to the verifier. Returns nil when the call is not one of them or cannot be modelled.
func (fr *frame) nativeSlices(fn *ssa.Function, c *ssa.CallCommon, args []*Val, st *State, reach string) *Val {
	name := slicesFunc(fn)
	if name == "" || c == nil || len(args) != 2 || len(c.Args) != 2 {
		return nil
	}
	sl, ok := c.Args[0].Type().Underlying().(*types.Slice)
	if !ok {
		return nil
	}
	u := fr.u
	s := u.sorts
	et := sl.Elem()
	es := s.sortOf(et)
	h := u.heapGet(st, "E:"+s.typeKey(et), "(Array Int (Array Int "+es+"))")
	sv := fr.valTerm(args[0], st)
	elem := func(k string) string {
		return fmt.Sprintf("(%s (select %s (s-arr %s)) %s %s)", s.atFn(et), h, sv, sv, k)
	}
	var pred func(k string) (string, bool)
	switch name {
	case "Contains", "Index":
		if _, basic := et.Underlying().(*types.Basic); !basic {
			if _, ptr := et.Underlying().(*types.Pointer); !ptr {
				return nil
			}
		}
		v := fr.valTerm(args[1], st)
		pred = func(k string) (string, bool) { return fmt.Sprintf("(= %s %s)", elem(k), v), true }
	case "ContainsFunc", "IndexFunc":
		f := args[1]
		if f.fn == nil {
			return nil
		}
		if ms := u.eng.modsetOf(f.fn); len(ms) > 0 {
			return nil // a predicate with effects is not a predicate: not modelled
		}
		pred = func(k string) (string, bool) {
			nf := u.newFrame(f.fn, fr.depth+1, true, fr.prefix)
			nf.binders = fr.binders + 1
			nf.preState = fr.preState
			var lets [][2]string
			nf.lets = &lets
			okRun := true
			var res []*Val
			func() {
				defer func() {
					if r := recover(); r != nil {
						okRun = false
					}
				}()
				res, _, _ = nf.run([]*Val{{t: elem(k)}}, f.bindings, st, "true")
			}()
			if !okRun || len(res) == 0 || res[0].t == "" {
				return "", false
			}
			body := res[0].t
			for i := len(lets) - 1; i >= 0; i-- {
				body = fmt.Sprintf("(let ((%s %s)) %s)", lets[i][0], lets[i][1], body)
			}
			return body, true
		}
	default:
		return nil
	}
	k := u.fresh("k")
	pk, ok := pred(k)
	if !ok {
		return nil
	}
	inRange := fmt.Sprintf("(and (<= 0 %s) (< %s (s-len %s)))", k, k, sv)
	if name == "Contains" || name == "ContainsFunc" {
		return &Val{t: fmt.Sprintf("(exists ((%s Int)) (and %s %s))", k, inRange, pk)}
	}
	if fr.binders > 0 {
		return nil // an index is introduced by a declaration, which a quantifier body cannot hold
	}
	r := u.declare("index", "Int")
	pr, _ := pred(r)
	u.assume(reach, fmt.Sprintf("(and (<= (- 1) %s) (< %s (s-len %s)))", r, r, sv))
	u.assume(reach, fmt.Sprintf("(=> (>= %s 0) %s)", r, pr))
	u.assume(reach, fmt.Sprintf("(forall ((%s Int)) (=> (and %s (or (< %s %s) (= %s (- 1)))) (not %s)))", k, inRange, k, r, r, pk))
	return &Val{t: r}
}

package main

import (
	"fmt"
	"go/constant"
	"go/token"
	"go/types"
	"os"
	"path/filepath"
	"regexp"
	"strings"

	"golang.org/x/tools/go/ssa"
)

// A local strings.Builder that is only ever written with WriteString / WriteByte and read with String / Len (never
// handed to anyone as an io.Writer, never copied) is a string accumulator: its content is tracked exactly, in a cell of
// its own, so that `q := a + b; q += c` and `var q strings.Builder; q.WriteString(a) ...; q.String()` mean the same to
// the verifier. Any other builder keeps the opaque treatment (String() is a pure function of the builder's value).

var sbMethods = map[string]bool{"WriteString": true, "WriteByte": true, "String": true, "Len": true, "Reset": true, "Grow": true}

func isStringsBuilderPtr(t types.Type) bool {
	p, ok := t.Underlying().(*types.Pointer)
	if !ok {
		return false
	}
	n, ok := p.Elem().(*types.Named)
	return ok && n.Obj().Pkg() != nil && n.Obj().Pkg().Path() == "strings" && n.Obj().Name() == "Builder"
}

// localBuilder returns the name of the content cell of such a builder, or "".
func (fr *frame) localBuilder(v ssa.Value) string {
	a, ok := v.(*ssa.Alloc)
	if !ok || !isStringsBuilderPtr(a.Type()) || a.Referrers() == nil || a.Block() == nil {
		return ""
	}
	for _, r := range *a.Referrers() {
		switch x := r.(type) {
		case *ssa.DebugRef:
			continue
		case *ssa.Call:
			f := x.Call.StaticCallee()
			if f == nil || x.Call.IsInvoke() || len(x.Call.Args) == 0 || x.Call.Args[0] != v || !sbMethods[f.Name()] ||
				f.Signature.Recv() == nil || !isStringsBuilderPtr(f.Signature.Recv().Type()) {
				return ""
			}
			for _, o := range x.Call.Args[1:] {
				if o == v {
					return ""
				}
			}
		default:
			return ""
		}
	}
	idx := 0
	for i, in := range a.Block().Instrs {
		if in == a {
			idx = i
		}
	}
	return fmt.Sprintf("SB:%s%s.%s.%d.%d", fr.prefix, funcName(fr.fn), a.Comment, a.Block().Index, idx)
}

// builderCall: the modelled method of a local builder named by cell `name`.
func (fr *frame) builderCall(name, method string, args []*Val, st *State) *Val {
	u := fr.u
	cur := u.heapGet(st, name, "String")
	// Two more cells per builder: what it held when Len() was last taken (#m) and what has been written since (#s). By
	// construction content == #m ++ #s at all times, so `b.String()[n:]` with n a remembered Len() is #s - stated as a
	// lemma at String(), because the string solver does not find "the suffix after a prefix of that length" by itself.
	since := u.heapGet(st, name+"#s", "String")
	switch method {
	case "WriteString":
		s := fr.valTerm(args[1], st)
		u.heapSet(st, name, "String", fmt.Sprintf("(str.++ %s %s)", cur, s))
		u.heapSet(st, name+"#s", "String", fmt.Sprintf("(str.++ %s %s)", since, s))
		return &Val{tuple: []*Val{{t: fmt.Sprintf("(str.len %s)", s)}, {t: "(mk-iface 0 0)"}}}
	case "WriteByte":
		b := fmt.Sprintf("(str.from_code %s)", fr.valTerm(args[1], st))
		u.heapSet(st, name, "String", fmt.Sprintf("(str.++ %s %s)", cur, b))
		u.heapSet(st, name+"#s", "String", fmt.Sprintf("(str.++ %s %s)", since, b))
		return &Val{t: "(mk-iface 0 0)"}
	case "String":
		mark := u.heapGet(st, name+"#m", "String")
		c := u.define("sb", "String", cur)
		u.assume("true", fmt.Sprintf("(and (= %s (str.++ %s %s)) (= (str.substr %s (str.len %s) (- (str.len %s) (str.len %s))) %s))",
			c, mark, since, c, mark, c, mark, since))
		return &Val{t: c}
	case "Len":
		u.heapSet(st, name+"#m", "String", cur)
		u.heapSet(st, name+"#s", "String", "\"\"")
		return &Val{t: fmt.Sprintf("(str.len %s)", cur)}
	case "Reset":
		u.heapSet(st, name, "String", "\"\"")
		u.heapSet(st, name+"#m", "String", "\"\"")
		u.heapSet(st, name+"#s", "String", "\"\"")
	}
	return &Val{t: "0"}
}

// builderCallName: for a call instruction, the content cell it operates on (modelled method of a local builder), or "".
func (fr *frame) builderCallName(c *ssa.CallCommon) string {
	if c.IsInvoke() || len(c.Args) == 0 {
		return ""
	}
	f := c.StaticCallee()
	if f == nil || !sbMethods[f.Name()] || f.Signature.Recv() == nil || !isStringsBuilderPtr(f.Signature.Recv().Type()) {
		return ""
	}
	return fr.localBuilder(c.Args[0])
}

// nativeSprintf gives fmt.Sprintf its meaning when the format is a constant made of literal text and the verbs %s %d %v
// (and %%), and every argument is, statically, a string or an integer placed directly in the call's argument list: the
// result is the concatenation. Anything else keeps the default treatment (an arbitrary string).
func (fr *frame) nativeSprintf(c *ssa.CallCommon, st *State) *Val {
	if c == nil || len(c.Args) != 2 {
		return nil
	}
	fc, ok := c.Args[0].(*ssa.Const)
	if !ok || fc.Value == nil || fc.Value.Kind() != constant.String {
		return nil
	}
	format := constant.StringVal(fc.Value)
	// the variadic arguments: a slice of a local array filled by constant-index stores
	var elems []ssa.Value
	switch a := c.Args[1].(type) {
	case *ssa.Const:
		// no arguments (nil slice)
	case *ssa.Slice:
		arr, ok := a.X.(*ssa.Alloc)
		if !ok || a.Low != nil || a.High != nil || arr.Referrers() == nil {
			return nil
		}
		at, ok := arr.Type().Underlying().(*types.Pointer).Elem().Underlying().(*types.Array)
		if !ok {
			return nil
		}
		elems = make([]ssa.Value, at.Len())
		for _, r := range *arr.Referrers() {
			ia, ok := r.(*ssa.IndexAddr)
			if !ok {
				if r == ssa.Instruction(a) {
					continue
				}
				if _, isDbg := r.(*ssa.DebugRef); isDbg {
					continue
				}
				return nil
			}
			k, ok := ia.Index.(*ssa.Const)
			if !ok || ia.Referrers() == nil {
				return nil
			}
			idx, ok := constant.Int64Val(k.Value)
			if !ok || idx < 0 || int(idx) >= len(elems) {
				return nil
			}
			for _, rr := range *ia.Referrers() {
				s, ok := rr.(*ssa.Store)
				if !ok || s.Addr != ssa.Value(ia) {
					return nil
				}
				mi, ok := s.Val.(*ssa.MakeInterface)
				if !ok {
					return nil
				}
				elems[idx] = mi.X
			}
		}
		for _, e := range elems {
			if e == nil {
				return nil
			}
		}
	default:
		return nil
	}
	var parts []string
	lit := ""
	flush := func() {
		if lit != "" {
			parts = append(parts, smtString(lit))
			lit = ""
		}
	}
	next := 0
	for i := 0; i < len(format); i++ {
		ch := format[i]
		if ch != '%' {
			lit += string(ch)
			continue
		}
		if i+1 >= len(format) {
			return nil
		}
		i++
		verb := format[i]
		if verb == '%' {
			lit += "%"
			continue
		}
		if verb != 's' && verb != 'd' && verb != 'v' {
			return nil
		}
		if next >= len(elems) {
			return nil
		}
		e := elems[next]
		next++
		b, ok := e.Type().Underlying().(*types.Basic)
		if !ok {
			return nil
		}
		flush()
		v := fr.valTerm(fr.valOf(e), st)
		switch {
		case b.Info()&types.IsString != 0 && (verb == 's' || verb == 'v'):
			parts = append(parts, v)
		case b.Info()&types.IsInteger != 0 && (verb == 'd' || verb == 'v'):
			parts = append(parts, fmt.Sprintf("(ite (< %s 0) (str.++ \"-\" (str.from_int (- %s))) (str.from_int %s))", v, v, v))
		default:
			return nil
		}
	}
	if next != len(elems) {
		return nil
	}
	flush()
	switch len(parts) {
	case 0:
		return &Val{t: "\"\""}
	case 1:
		return &Val{t: parts[0]}
	}
	return &Val{t: fr.defSort("sprintf", "String", "(str.++ "+strings.Join(parts, " ")+")")}
}

// slicesFunc: the name of the function of package slices that fn is (an instantiation of), or "".
func slicesFunc(fn *ssa.Function) string {
	o := fn
	if fn.Origin() != nil {
		o = fn.Origin()
	}
	if o.Pkg == nil || o.Pkg.Pkg == nil || o.Pkg.Pkg.Path() != "slices" {
		return ""
	}
	return o.Name()
}

// nativeSlices gives slices.Contains / ContainsFunc / Index / IndexFunc their meaning (first position at which the
// element equals v / satisfies the side-effect-free predicate f, -1 if none), so that a hand-written search loop and
// the library call are the same to the verifier. Returns nil when the call is not one of them or cannot be modelled.
func (fr *frame) nativeSlices(fn *ssa.Function, c *ssa.CallCommon, args []*Val, st *State, reach string) *Val {
	name := slicesFunc(fn)
	if name == "" || c == nil || len(args) != 2 || len(c.Args) != 2 {
		return nil
	}
	sl, ok := c.Args[0].Type().Underlying().(*types.Slice)
	if !ok {
		return nil
	}
	u := fr.u
	s := u.sorts
	et := sl.Elem()
	es := s.sortOf(et)
	h := u.heapGet(st, "E:"+s.typeKey(et), "(Array Int (Array Int "+es+"))")
	sv := fr.valTerm(args[0], st)
	elem := func(k string) string {
		return fmt.Sprintf("(%s (select %s (s-arr %s)) %s %s)", s.atFn(et), h, sv, sv, k)
	}
	var pred func(k string) (string, bool)
	switch name {
	case "Contains", "Index":
		if _, basic := et.Underlying().(*types.Basic); !basic {
			if _, ptr := et.Underlying().(*types.Pointer); !ptr {
				return nil
			}
		}
		v := fr.valTerm(args[1], st)
		pred = func(k string) (string, bool) { return fmt.Sprintf("(= %s %s)", elem(k), v), true }
	case "ContainsFunc", "IndexFunc":
		f := args[1]
		if f.fn == nil {
			return nil
		}
		if ms := u.eng.modsetOf(f.fn); len(ms) > 0 {
			return nil // a predicate with effects is not a predicate: not modelled
		}
		pred = func(k string) (string, bool) {
			nf := u.newFrame(f.fn, fr.depth+1, true, fr.prefix)
			nf.binders = fr.binders + 1
			nf.preState = fr.preState
			var lets [][2]string
			nf.lets = &lets
			okRun := true
			var res []*Val
			func() {
				defer func() {
					if r := recover(); r != nil {
						okRun = false
					}
				}()
				res, _, _ = nf.run([]*Val{{t: elem(k)}}, f.bindings, st, "true")
			}()
			if !okRun || len(res) == 0 || res[0].t == "" {
				return "", false
			}
			body := res[0].t
			for i := len(lets) - 1; i >= 0; i-- {
				body = fmt.Sprintf("(let ((%s %s)) %s)", lets[i][0], lets[i][1], body)
			}
			return body, true
		}
	default:
		return nil
	}
	k := u.fresh("k")
	pk, ok := pred(k)
	if !ok {
		return nil
	}
	inRange := fmt.Sprintf("(and (<= 0 %s) (< %s (s-len %s)))", k, k, sv)
	if name == "Contains" || name == "ContainsFunc" {
		return &Val{t: fmt.Sprintf("(exists ((%s Int)) (and %s %s))", k, inRange, pk)}
	}
	if fr.binders > 0 {
		return nil // an index is introduced by a declaration, which a quantifier body cannot hold
	}
	r := u.declare("index", "Int")
	pr, _ := pred(r)
	u.assume(reach, fmt.Sprintf("(and (<= (- 1) %s) (< %s (s-len %s)))", r, r, sv))
	u.assume(reach, fmt.Sprintf("(=> (>= %s 0) %s)", r, pr))
	u.assume(reach, fmt.Sprintf("(forall ((%s Int)) (=> (and %s (or (< %s %s) (= %s (- 1)))) (not %s)))", k, inRange, k, r, r, pk))
	return &Val{t: r}
}

// stdGeneric: (package path, name) of the generic standard-library function fn is (an instantiation of).
func stdGeneric(fn *ssa.Function) (string, string) {
	o := fn
	if fn.Origin() != nil {
		o = fn.Origin()
	}
	if o.Pkg == nil || o.Pkg.Pkg == nil {
		return "", ""
	}
	return o.Pkg.Pkg.Path(), o.Name()
}

// variadicElems: the SSA values placed in the argument list of a variadic call (a slice of a local array filled by
// constant-index stores), or nil, false.
func variadicElems(v ssa.Value) ([]ssa.Value, bool) {
	switch a := v.(type) {
	case *ssa.Const:
		return nil, true
	case *ssa.Slice:
		arr, ok := a.X.(*ssa.Alloc)
		if !ok || a.Low != nil || a.High != nil || arr.Referrers() == nil {
			return nil, false
		}
		at, ok := arr.Type().Underlying().(*types.Pointer).Elem().Underlying().(*types.Array)
		if !ok {
			return nil, false
		}
		elems := make([]ssa.Value, at.Len())
		for _, r := range *arr.Referrers() {
			ia, ok := r.(*ssa.IndexAddr)
			if !ok {
				if r == ssa.Instruction(a) {
					continue
				}
				if _, isDbg := r.(*ssa.DebugRef); isDbg {
					continue
				}
				return nil, false
			}
			k, ok := ia.Index.(*ssa.Const)
			if !ok || ia.Referrers() == nil {
				return nil, false
			}
			idx, ok := constant.Int64Val(k.Value)
			if !ok || idx < 0 || int(idx) >= len(elems) {
				return nil, false
			}
			for _, rr := range *ia.Referrers() {
				s, ok := rr.(*ssa.Store)
				if !ok || s.Addr != ssa.Value(ia) {
					return nil, false
				}
				elems[idx] = s.Val
			}
		}
		for _, e := range elems {
			if e == nil {
				return nil, false
			}
		}
		return elems, true
	}
	return nil, false
}

// nativeStd: cmp.Or (the first argument that is not the zero value, else the zero value) and slices.Concat (a new slice
// holding the arguments' elements one after the other), for argument lists written out at the call.
func (fr *frame) nativeStd(fn *ssa.Function, c *ssa.CallCommon, args []*Val, st *State, reach string) *Val {
	pkg, name := stdGeneric(fn)
	if c == nil || len(c.Args) != 1 {
		return nil
	}
	u := fr.u
	s := u.sorts
	switch {
	case pkg == "cmp" && name == "Or":
		elems, ok := variadicElems(c.Args[0])
		if !ok || len(elems) == 0 {
			return nil
		}
		et := elems[0].Type()
		if _, basic := et.Underlying().(*types.Basic); !basic {
			return nil
		}
		zero := s.zero(et)
		term := zero
		for i := len(elems) - 1; i >= 0; i-- {
			v := fr.valTerm(fr.valOf(elems[i]), st)
			term = ite(fmt.Sprintf("(not (= %s %s))", v, zero), v, term)
		}
		return &Val{t: fr.def("or", et, term)}
	case pkg == "slices" && name == "Concat":
		if fr.pure {
			return nil
		}
		elems, ok := variadicElems(c.Args[0])
		if !ok {
			return nil
		}
		resT, ok := fn.Signature.Results().At(0).Type().Underlying().(*types.Slice)
		if !ok {
			return nil
		}
		et := resT.Elem()
		es := s.sortOf(et)
		hname := "E:" + s.typeKey(et)
		hs := "(Array Int (Array Int " + es + "))"
		h := u.heapGet(st, hname, hs)
		arr := fr.allocRef(st)
		cont := u.declare("concat", "(Array Int "+es+")")
		at := s.atFn(et)
		off := "0"
		for _, e := range elems {
			sv := fr.valTerm(fr.valOf(e), st)
			k := u.fresh("k")
			u.assume(reach, fmt.Sprintf("(forall ((%s Int)) (! (=> (and (<= %s %s) (< %s (+ %s (s-len %s)))) (= (select %s %s) (%s (select %s (s-arr %s)) %s (- %s %s)))) :pattern ((select %s %s))))",
				k, off, k, k, off, sv, cont, k, at, h, sv, sv, k, off, cont, k))
			off = u.define("coff", "Int", fmt.Sprintf("(+ %s (s-len %s))", off, sv))
		}
		u.heapSet(st, hname, hs, fmt.Sprintf("(store %s %s %s)", h, arr, cont))
		return &Val{t: u.define("cat", "Slice", fmt.Sprintf("(mk-slice %s 0 %s %s)", arr, off, off))}
	}
	return nil
}

// constTable: a package-level slice variable that is a constant table - initialised once, in the package initialiser,
// from a composite literal of string / integer / boolean constants, never assigned again, never written through and
// never handed to code outside /repo - has the literal's elements as its contents, always. Returns the elements, or
// nil, false. (Reading such a variable re-creates the literal: nobody can tell the difference.)
func (e *Engine) constTable(g *ssa.Global) ([]*ssa.Const, bool) {
	if v, ok := e.tables[g]; ok {
		return v, v != nil
	}
	e.tables[g] = nil
	sl, ok := g.Type().Underlying().(*types.Pointer).Elem().Underlying().(*types.Slice)
	if !ok {
		return nil, false
	}
	if b, ok := sl.Elem().Underlying().(*types.Basic); !ok || b.Info()&(types.IsString|types.IsInteger|types.IsBoolean) == 0 {
		return nil, false
	}
	if g.Pkg == nil || !strings.HasPrefix(g.Pkg.Pkg.Path(), modPath) || e.assignedOutsideInit(g) != "" {
		return nil, false
	}
	// the one store in the package initialiser
	init := g.Pkg.Func("init")
	if init == nil {
		return nil, false
	}
	var elems []*ssa.Const
	stores := 0
	for _, b := range init.Blocks {
		for _, in := range b.Instrs {
			st, ok := in.(*ssa.Store)
			if !ok || st.Addr != ssa.Value(g) {
				continue
			}
			stores++
			vals, ok := variadicElems(st.Val)
			if !ok {
				return nil, false
			}
			for _, v := range vals {
				c, isC := v.(*ssa.Const)
				if !isC {
					return nil, false
				}
				elems = append(elems, c)
			}
		}
	}
	if stores != 1 {
		return nil, false
	}
	// every use of the variable's value, anywhere in /repo, only reads
	for _, fn := range e.funcs {
		for _, fns := range append([]*ssa.Function{fn}, fn.AnonFuncs...) {
			for _, b := range fns.Blocks {
				for _, in := range b.Instrs {
					ld, ok := in.(*ssa.UnOp)
					if !ok || ld.Op != token.MUL || ld.X != ssa.Value(g) || ld.Referrers() == nil {
						continue
					}
					for _, r := range *ld.Referrers() {
						switch x := r.(type) {
						case *ssa.DebugRef, *ssa.Range:
						case *ssa.IndexAddr:
							if x.Referrers() != nil {
								for _, rr := range *x.Referrers() {
									if s, isStore := rr.(*ssa.Store); isStore && s.Addr == ssa.Value(x) {
										return nil, false
									}
								}
							}
						case *ssa.Call:
							if bi, isB := x.Call.Value.(*ssa.Builtin); isB && (bi.Name() == "len" || bi.Name() == "cap") {
								continue
							}
							callee := x.Call.StaticCallee()
							if callee == nil || x.Call.IsInvoke() {
								return nil, false
							}
							if slicesFunc(callee) == "" {
								if !isRepoFunc(callee) {
									return nil, false
								}
								for k := range e.modsetOf(callee) {
									if strings.HasPrefix(k, "PE:") || strings.HasPrefix(k, "E:") || k == "*" {
										return nil, false
									}
								}
							}
						default:
							return nil, false
						}
					}
				}
			}
		}
	}
	e.tables[g] = elems
	return elems, true
}

// loadConstTable materialises a constant table at the point where its variable is read.
func (fr *frame) loadConstTable(g *ssa.Global, elems []*ssa.Const, st *State) *Val {
	u := fr.u
	s := u.sorts
	et := g.Type().Underlying().(*types.Pointer).Elem().Underlying().(*types.Slice).Elem()
	es := s.sortOf(et)
	name := "E:" + s.typeKey(et)
	hs := "(Array Int (Array Int " + es + "))"
	h := u.heapGet(st, name, hs)
	arr := fr.allocRef(st)
	cont := fmt.Sprintf("((as const (Array Int %s)) %s)", es, s.zero(et))
	for i, c := range elems {
		cont = fmt.Sprintf("(store %s %d %s)", cont, i, fr.constVal(c).t)
	}
	u.heapSet(st, name, hs, fmt.Sprintf("(store %s %s %s)", h, arr, cont))
	u.abstract("constant-table-read")
	return &Val{t: u.define("table", "Slice", fmt.Sprintf("(mk-slice %s 0 %d %d)", arr, len(elems), len(elems)))}
}

// constScalar: an UNEXPORTED package-level variable of string / integer / boolean type that is initialised once, in the
// package initialiser, from a constant, is never assigned again and whose address is never taken, is that constant:
// `var formText = "..."` reads like `const formText = "..."`. Exported variables are settings (MaxClockSkew) and stay
// variables.
func (e *Engine) constScalar(g *ssa.Global) (*ssa.Const, bool) {
	if e.scalarSeen == nil {
		e.scalarSeen, e.scalars = map[*ssa.Global]bool{}, map[*ssa.Global]*ssa.Const{}
	}
	if e.scalarSeen[g] {
		c := e.scalars[g]
		return c, c != nil
	}
	e.scalarSeen[g] = true
	if g.Object() == nil || g.Object().Exported() || g.Pkg == nil || !strings.HasPrefix(g.Pkg.Pkg.Path(), modPath) {
		return nil, false
	}
	b, ok := g.Type().Underlying().(*types.Pointer).Elem().Underlying().(*types.Basic)
	if !ok || b.Info()&(types.IsString|types.IsInteger|types.IsBoolean) == 0 {
		return nil, false
	}
	var val *ssa.Const
	stores := 0
	var check func(fn *ssa.Function) bool
	check = func(fn *ssa.Function) bool {
		isInit := fn.Synthetic == "package initializer" || fn.Name() == "init"
		for _, blk := range fn.Blocks {
			for _, in := range blk.Instrs {
				uses := false
				for _, op := range in.Operands(nil) {
					if op != nil && *op == ssa.Value(g) {
						uses = true
					}
				}
				if !uses {
					continue
				}
				switch x := in.(type) {
				case *ssa.UnOp:
					if x.Op != token.MUL {
						return false
					}
				case *ssa.Store:
					c, isC := x.Val.(*ssa.Const)
					if !isInit || x.Addr != ssa.Value(g) || !isC {
						return false
					}
					stores++
					val = c
				case *ssa.DebugRef:
				default:
					return false
				}
			}
		}
		for _, a := range fn.AnonFuncs {
			if !check(a) {
				return false
			}
		}
		return true
	}
	for _, fn := range e.funcs {
		if !check(fn) {
			return nil, false
		}
	}
	if init := g.Pkg.Func("init"); init != nil {
		if _, listed := e.funcs[funcName(init)]; !listed && !check(init) {
			return nil, false
		}
	}
	if stores != 1 || val == nil {
		return nil, false
	}
	e.scalars[g] = val
	return val, true
}

// initOnce: an UNEXPORTED package-level variable that is assigned exactly once, in the package initialiser, from an
// expression built only of constants and calls of functions outside /repo (`regexp.MustCompile("...")`,
// `template.Must(template.New("x").Parse("..."))`), is never assigned again and never has its address taken, holds what
// that expression produced. Reading it re-evaluates the expression at the point of the read, under the (assumed)
// contracts of what it calls: hoisting a per-call computation of constants to package level changes nothing.
type initExpr struct {
	fn     *ssa.Function
	instrs []ssa.Instruction
	val    ssa.Value
}

func (e *Engine) initOnce(g *ssa.Global) *initExpr {
	if e.initExprs == nil {
		e.initExprs = map[*ssa.Global]*initExpr{}
	}
	if ie, seen := e.initExprs[g]; seen {
		return ie
	}
	e.initExprs[g] = nil
	if g.Object() == nil || g.Object().Exported() || g.Pkg == nil || !strings.HasPrefix(g.Pkg.Pkg.Path(), modPath) {
		return nil
	}
	init := g.Pkg.Func("init")
	if init == nil {
		return nil
	}
	// a variable the contracts talk about keeps its identity (specifications read it from the heap); the rule is for
	// variables that did not exist when the contracts were written
	dir := strings.TrimPrefix(strings.TrimPrefix(g.Pkg.Pkg.Path(), modPath), "/")
	if text, err := os.ReadFile(filepath.Join(repoDir, dir, "verif_contracts.go")); err == nil {
		if regexp.MustCompile(`\b` + regexp.QuoteMeta(g.Name()) + `\b`).Match(text) {
			return nil
		}
	}
	var store *ssa.Store
	ok := true
	var check func(fn *ssa.Function)
	check = func(fn *ssa.Function) {
		for _, blk := range fn.Blocks {
			for _, in := range blk.Instrs {
				uses := false
				for _, op := range in.Operands(nil) {
					if op != nil && *op == ssa.Value(g) {
						uses = true
					}
				}
				if !uses {
					continue
				}
				switch x := in.(type) {
				case *ssa.UnOp:
					if x.Op != token.MUL {
						ok = false
					}
				case *ssa.Store:
					if fn != init || x.Addr != ssa.Value(g) || store != nil {
						ok = false
					}
					store = x
				case *ssa.DebugRef:
				default:
					ok = false
				}
			}
		}
		for _, a := range fn.AnonFuncs {
			check(a)
		}
	}
	for _, fn := range e.funcs {
		check(fn)
	}
	if _, listed := e.funcs[funcName(init)]; !listed {
		check(init)
	}
	if !ok || store == nil {
		return nil
	}
	// the backward slice of the stored value: constants and calls only
	need := map[ssa.Instruction]bool{}
	var walk func(v ssa.Value) bool
	walk = func(v ssa.Value) bool {
		switch x := v.(type) {
		case *ssa.Const, *ssa.Function:
			return true
		case *ssa.Call:
			callee := x.Call.StaticCallee()
			if callee == nil || x.Call.IsInvoke() || isRepoFunc(callee) || len(callee.Blocks) > 0 && callee.Pkg != nil && strings.HasPrefix(callee.Pkg.Pkg.Path(), modPath) {
				return false
			}
			for _, a := range x.Call.Args {
				if !walk(a) {
					return false
				}
			}
			need[x] = true
			return true
		case *ssa.Extract:
			if !walk(x.Tuple) {
				return false
			}
			need[x] = true
			return true
		case *ssa.ChangeType:
			if !walk(x.X) {
				return false
			}
			need[x] = true
			return true
		}
		return false
	}
	if _, isConst := store.Val.(*ssa.Const); isConst || !walk(store.Val) {
		return nil
	}
	ie := &initExpr{fn: init, val: store.Val}
	for _, blk := range init.Blocks {
		for _, in := range blk.Instrs {
			if need[in] {
				ie.instrs = append(ie.instrs, in)
			}
		}
	}
	e.initExprs[g] = ie
	return ie
}

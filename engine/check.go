package main

import (
	"strconv"
	"regexp"
	"encoding/json"
	"flag"
	"fmt"
	"os"
	"path/filepath"
	"sort"
	"strings"
	"sync"
	"time"
)

type unitSpec struct {
	Fn     string `json:"fn"`
	Safety bool   `json:"safety"`
}

type propSpec struct {
	Units   []unitSpec `json:"units"`
	Trusted []string   `json:"trusted_base"`
	Assume  []string   `json:"assumptions"`
}

func loadProps() map[string]*propSpec {
	data, err := os.ReadFile("/verif/contracts/props.json")
	if err != nil {
		fatal("props.json: %v", err)
	}
	m := map[string]*propSpec{}
	if err := json.Unmarshal(data, &m); err != nil {
		fatal("props.json: %v", err)
	}
	return m
}

func fatal(format string, a ...interface{}) {
	fmt.Fprintf(os.Stderr, "govc: "+format+"\n", a...)
	os.Exit(2)
}

func setup() *Engine {
	cs, overlay, err := loadContracts()
	if err != nil {
		fatal("%v", err)
	}
	broken := map[string]string{}
	var l *Loaded
	for attempt := 0; attempt < 8; attempt++ {
		l, err = loadRepo(overlay)
		if err == nil {
			break
		}
		// clauses that no longer type-check against the current code are dropped (their obligations
		// are reported as failed: "stale contract"), everything else is still checked
		specErr := regexp.MustCompile(`(` + regexp.QuoteMeta(repoDir) + `/[^ :]*zz_verif_spec\.go):(\d+):\d+: (.*)`)
		found := false
		for _, ln := range strings.Split(err.Error(), "\n") {
			m := specErr.FindStringSubmatch(ln)
			if m == nil {
				continue
			}
			var lineNo int
			fmt.Sscanf(m[2], "%d", &lineNo)
			src := strings.Split(string(overlay[m[1]]), "\n")
			if lineNo-1 < len(src) {
				// the function declaration the error lies in: a synthesised clause function (one line) or a helper declared in
				// the contract file (`go func`, possibly several lines). It is dropped; clauses that used a dropped helper fail
				// to type-check on the next attempt and are dropped in turn (stale: undecided, reported).
				funcRe := regexp.MustCompile(`^func ([A-Za-z0-9_]+)\(`)
				start := lineNo - 1
				for start >= 0 && funcRe.FindStringSubmatch(src[start]) == nil && !strings.HasPrefix(src[start], "// stale") {
					start--
				}
				if start >= 0 {
					if fm := funcRe.FindStringSubmatch(src[start]); fm != nil {
						depth, end := 0, start
						for j := start; j < len(src); j++ {
							depth += strings.Count(src[j], "{") - strings.Count(src[j], "}")
							end = j
							if depth <= 0 && strings.Contains(strings.Join(src[start:j+1], ""), "{") {
								break
							}
						}
						if end >= lineNo-1 {
							broken[fm[1]] = m[3]
							for j := start; j <= end; j++ {
								src[j] = "// stale: " + fm[1]
							}
							overlay[m[1]] = []byte(strings.Join(src, "\n"))
							found = true
						}
					}
				}
			}
		}
		if !found {
			break
		}
		// imports that became unused by the removal are dropped too
		for path, data := range overlay {
			overlay[path] = pruneImports(data)
		}
	}
	if err != nil {
		if os.Getenv("GOVC_DEBUG") != "" {
			for k, v := range overlay {
				fmt.Fprintf(os.Stderr, "---- %s\n%s\n", k, v)
			}
		}
		fatal("%v", err)
	}
	e := newEngine(l)
	e.broken = broken
	e.overlay = overlay
	cs.resolve(e)
	for fn, msg := range broken {
		e.stale = append(e.stale, fmt.Sprintf("clause %s no longer type-checks: %s", fn, msg))
	}
	return e
}

func pruneImports(data []byte) []byte {
	src := string(data)
	i := strings.Index(src, "import (")
	j := strings.Index(src, "\n)\n")
	if i < 0 || j < 0 {
		return data
	}
	body := src[j+3:]
	var keep []string
	for _, ln := range strings.Split(src[i+len("import ("):j], "\n") {
		f := strings.Fields(ln)
		if len(f) == 2 && !regexp.MustCompile(`\b`+regexp.QuoteMeta(f[0])+`\.`).MatchString(body) {
			continue
		}
		keep = append(keep, ln)
	}
	return []byte(src[:i] + "import (" + strings.Join(keep, "\n") + src[j:])
}

func (ob *Obligation) counts(prop string, safety bool) bool {
	if ob.Canary {
		return false
	}
	// tagged obligations belong to the named properties; `cfg` marks preconditions about the caller's configuration, which
	// are assumptions of the whole analysis (listed in the evidence) and are not owed at call sites inside the library;
	// untagged preconditions (`requires label: ...`) are about arguments the library computes itself and are owed by
	// every caller in every check
	if ob.Kind == "inv-init" || ob.Kind == "inv-step" {
		// a loop invariant is assumed at the loop head by everything proved after it, whichever property that serves: its
		// establishment and preservation are owed in every check that lists the function
		return true
	}
	if len(ob.Tags) > 0 {
		for _, t := range ob.Tags {
			if t == prop {
				return true
			}
		}
		return false
	}
	if safetyKinds[ob.Kind] {
		return safety
	}
	return true
}

func solveAll(obs []*Obligation, tier string) {
	sem := make(chan struct{}, 14)
	var wg sync.WaitGroup
	for _, ob := range obs {
		ob := ob
		wg.Add(1)
		sem <- struct{}{}
		go func() {
			defer wg.Done()
			defer func() { <-sem }()
			ob.Unit.solve(ob, tier)
		}()
	}
	wg.Wait()
}

func cmdUnit(args []string) {
	fs := flag.NewFlagSet("unit", flag.ExitOnError)
	dumpOb := fs.String("smt", "", "dump the query of this obligation")
	all := fs.Bool("v", false, "list discharged obligations too")
	fs.Parse(args)
	e := setup()
	if os.Getenv("GOVC_ACC") != "" {
		e.debugAccessors(os.Getenv("GOVC_ACC"))
	}
	for _, name := range fs.Args() {
		fn := e.funcs[name]
		if fn == nil {
			fmt.Println("not found:", name)
			var cands []string
			for k := range e.funcs {
				if strings.Contains(k, strings.Trim(name, "()*")) {
					cands = append(cands, k)
				}
			}
			sort.Strings(cands)
			fmt.Println("  candidates:", cands)
			continue
		}
		t0 := time.Now()
		u := e.verifyFunc(fn)
		fmt.Fprintf(os.Stderr, "== %s: %d obligations (%d cmds) generated in %v\n", name, len(u.obs), len(u.cmds), time.Since(t0))
		if *dumpOb != "" {
			for _, ob := range u.obs {
				if ob.Name == *dumpOb {
					fmt.Println(u.queryV(ob, false, true, os.Getenv("GOVC_MACRO") != ""))
				}
			}
			continue
		}
		solveAll(u.obs, "quick")
		for _, ob := range u.obs {
			if ob.Canary {
				if ob.Result == "unsat" {
					fmt.Printf("  VACUOUS  %s (canary discharged: exit unreachable or contradictory assumptions)\n", ob.Name)
				}
				continue
			}
			if ob.Result == "unsat" && !*all {
				continue
			}
			fmt.Printf("  %-8s %-70s %s %dms %s\n", ob.Result, ob.Name, ob.Solver, ob.Ms, ob.Pos)
			if ob.Result == "sat" {
				fmt.Printf("           model: %s\n", u.modelSummary(ob))
			}
		}
		for _, w := range u.unsupported {
			fmt.Println("  UNSUPPORTED:", w)
		}
		for _, w := range u.warnings {
			fmt.Println("  warn:", w)
		}
		var ab []string
		for k, n := range u.abstracted {
			ab = append(ab, fmt.Sprintf("%s×%d", k, n))
		}
		sort.Strings(ab)
		fmt.Println("  abstracted:", strings.Join(ab, ", "))
		var dx []string
		for k := range u.defaultExt {
			dx = append(dx, k)
		}
		sort.Strings(dx)
		fmt.Println("  default externs:", strings.Join(dx, ", "))
		var dc []string
		for k := range u.dynCalls {
			dc = append(dc, k)
		}
		sort.Strings(dc)
		fmt.Println("  dynamic calls:", strings.Join(dc, ", "))
	}
	if len(e.stale) > 0 {
		fmt.Println("STALE:", e.stale)
	}
}

func (u *Unit) modelSummary(ob *Obligation) string {
	lines := strings.Split(ob.Model, "\n")
	if len(lines) > 1 {
		s := strings.Join(lines[1:], " ")
		s = strings.Join(strings.Fields(s), " ")
		if len(s) > 600 {
			s = s[:600] + "…"
		}
		return s
	}
	return ""
}

// ---------------------------------------------------------------------------

type obReport struct {
	Name   string `json:"name"`
	Kind   string `json:"kind"`
	Unit   string `json:"unit"`
	Result string `json:"result"`
	Solver string `json:"solver"`
	Ms     int64  `json:"ms"`
	Pos    string `json:"pos,omitempty"`
	Clause string `json:"clause,omitempty"`
}

type knownFinding struct {
	Property   string `json:"property"`
	Obligation string `json:"obligation"`
	What       string `json:"what"`
	Status     string `json:"status"` // open | fixed
	Commit     string `json:"commit,omitempty"`
}

// replayRoot: /verif/replays; the parallel self-test corpus redirects it (GOVC_REPLAY_DIR) together with the evidence.
func replayRoot() string {
	if d := os.Getenv("GOVC_REPLAY_DIR"); d != "" {
		return d
	}
	return "/verif/replays"
}

func loadKnown() []knownFinding {
	var k []knownFinding
	data, err := os.ReadFile("/verif/known_findings.json")
	if err != nil {
		return nil
	}
	if err := json.Unmarshal(data, &k); err != nil {
		fatal("known_findings.json: %v", err)
	}
	return k
}

func loadBaseline() map[string]map[string]bool {
	res := map[string]map[string]bool{}
	data, err := os.ReadFile("/verif/baseline/obligations.json")
	if err != nil {
		return res
	}
	m := map[string][]string{}
	if err := json.Unmarshal(data, &m); err != nil {
		fatal("baseline: %v", err)
	}
	for p, l := range m {
		res[p] = map[string]bool{}
		for _, n := range l {
			res[p][n] = true
		}
	}
	return res
}

func cmdCheck(args []string) {
	fs := flag.NewFlagSet("check", flag.ExitOnError)
	prop := fs.String("property", "", "property id")
	tier := fs.String("tier", "quick", "quick|thorough")
	writeBaseline := fs.Bool("write-baseline", false, "record discharged obligations as the baseline of this property")
	fs.Parse(args)
	if t := os.Getenv("VERIF_TIER"); t == "quick" || t == "thorough" {
		*tier = t
	}
	seed := 0
	fmt.Sscanf(os.Getenv("VERIF_SEED"), "%d", &seed)
	t0 := time.Now()
	props := loadProps()
	ps := props[*prop]
	if ps == nil {
		fatal("unknown property %s", *prop)
	}
	e := setup()
	if len(e.stale) > 0 {
		fmt.Printf("STALE-CONTRACTS: %s\n", strings.Join(e.stale, "; "))
	}
	var units []*Unit
	var obs []*Obligation
	var missing []string
	var mu sync.Mutex
	var wg sync.WaitGroup
	type job struct {
		us unitSpec
		u  *Unit
	}
	jobs := make([]*job, len(ps.Units))
	for i, us := range ps.Units {
		if nk, ok := e.renamedKey[us.Fn]; ok && e.funcs[us.Fn] == nil {
			ps.Units[i].Fn = nk
			us.Fn = nk
		}
		fn := e.funcs[us.Fn]
		if fn == nil {
			missing = append(missing, us.Fn)
			continue
		}
		// make sure modsets are computed sequentially (shared cache)
		e.modsetOf(fn)
		jobs[i] = &job{us: us}
	}
	// generation is sequential per unit but units are independent except for engine caches
	for i, us := range ps.Units {
		if jobs[i] == nil {
			continue
		}
		fn := e.funcs[us.Fn]
		u := e.verifyFunc(fn)
		jobs[i].u = u
		units = append(units, u)
		for _, ob := range u.obs {
			if ob.Canary || ob.counts(*prop, us.Safety) {
				obs = append(obs, ob)
			} else {
				ob.Unchecked = true
			}
		}
	}
	_ = mu
	_ = wg
	known := loadKnown()
	for _, ob := range obs {
		for i := range known {
			if known[i].Property == *prop && known[i].Obligation == ob.Name && known[i].Status == "open" {
				ob.Short = true
			}
		}
	}
	solveAll(obs, *tier)

	baseline := loadBaseline()[*prop]
	var reports []obReport
	var failed, undecided []*Obligation
	vacuous := 0
	discharged, total := 0, 0
	solverMs := map[string]int64{}
	for _, ob := range obs {
		solverMs[ob.Solver] += ob.Ms
		if ob.Canary {
			if ob.Result == "unsat" {
				vacuous++
				fmt.Printf("VACUOUS unit=%s: the exit of the function is unreachable under the assumed contracts (engine or contract defect)\n", funcName(ob.Unit.fn))
			}
			continue
		}
		total++
		reports = append(reports, obReport{Name: ob.Name, Kind: ob.Kind, Unit: funcName(ob.Unit.fn), Result: ob.Result, Solver: ob.Solver, Ms: ob.Ms, Pos: ob.Pos, Clause: ob.Clause})
		if ob.Result == "unsat" {
			discharged++
			continue
		}
		isKnown := false
		for i := range known {
			if known[i].Property == *prop && known[i].Obligation == ob.Name && known[i].Status == "open" {
				isKnown = true
			}
		}
		blName := ob.Name
		for nk, ok := range e.renamedNew {
			blName = strings.Replace(blName, nk+"#", ok+"#", 1)
		}
		if (ob.Unit.preStale || (ob.Unit.calleeStaleAt > 0 && ob.cmdIdx >= ob.Unit.calleeStaleAt-1) ||
			(ob.Unit.newLoopAt > 0 && ob.cmdIdx >= ob.Unit.newLoopAt-1) ||
			// after a loop with a new accumulator a counterexample still counts (the append-only invariant keeps what
			// the accumulator held; a model is a model), an inconclusive answer does not
			(ob.Unit.newAccAt > 0 && ob.cmdIdx >= ob.Unit.newAccAt-1 && ob.Result != "sat")) && !isKnown {
			// the unit was verified without a precondition that could not be evaluated: what fails in it is undecided
			undecided = append(undecided, ob)
			continue
		}
		if ob.Result == "sat" || baseline[blName] || baselineHas(baseline, blName) || isKnown {
			failed = append(failed, ob)
		} else {
			undecided = append(undecided, ob)
		}
	}
	// thorough: cross-check discharged obligations on the other solvers
	agreement := map[string]int{}
	if *tier == "thorough" {
		sem := make(chan struct{}, 7)
		var wg sync.WaitGroup
		var mu sync.Mutex
		for _, ob := range obs {
			if ob.Canary || ob.Result != "unsat" {
				continue
			}
			ob := ob
			wg.Add(1)
			sem <- struct{}{}
			go func() {
				defer wg.Done()
				defer func() { <-sem }()
				r := ob.Unit.crossCheck(ob)
				mu.Lock()
				for s, v := range r {
					agreement[s+":"+v]++
					if v == "sat" {
						fmt.Printf("SOLVER-DISAGREEMENT obligation=%s %s says sat\n", ob.Name, s)
					}
				}
				mu.Unlock()
			}()
		}
		wg.Wait()
	}

	exit := 0
	violations := 0
	knownHits := 0
	replays := 0
	// an open known finding whose obligation no longer fails is worth a line: either the defect was repaired (the entry
	// should become "fixed") or the obligation has become vacuous
	for i := range known {
		if known[i].Property != *prop || known[i].Status != "open" {
			continue
		}
		hit := false
		for _, ob := range failed {
			if ob.Name == known[i].Obligation {
				hit = true
			}
		}
		if !hit {
			fmt.Printf("NOTE: known finding not reproduced: property=%s obligation %s did not fail in this run (entry stale, or the obligation lost its force)\n", *prop, known[i].Obligation)
		}
	}
	for _, ob := range failed {
		var kf *knownFinding
		for i := range known {
			if known[i].Property == *prop && known[i].Obligation == ob.Name && known[i].Status == "open" {
				kf = &known[i]
			}
		}
		if kf != nil {
			fmt.Printf("KNOWN-FINDING: property=%s %s (obligation %s)\n", *prop, kf.What, ob.Name)
			knownHits++
			continue
		}
		violations++
		path := writeReplay(*prop, ob)
		confirmed := false
		// replays cost seconds each: the first few failed obligations of a run are replayed, the rest keep
		// their replay file (obligation, clause, solver output) and can be replayed with `govc replay`
		if replays < 3 && time.Since(t0) < 150*time.Second {
			replays++
			confirmed = tryReplay(e, *prop, ob, path)
		}
		if confirmed {
			fmt.Printf("VIOLATION property=%s replay=%s\n", *prop, path)
		} else {
			fmt.Printf("VIOLATION property=%s replay=%s no-failing-input-found\n", *prop, path)
		}
		fmt.Printf("  failed obligation: %s [%s] %s at %s\n  clause: %s\n  model: %s\n", ob.Name, ob.Result, ob.Solver, ob.Pos, ob.Clause, ob.Unit.modelSummary(ob))
		exit = 1
	}
	for _, dc := range e.dispatch {
		tagged := len(dc.Tags) == 0
		for _, t := range dc.Tags {
			if t == *prop {
				tagged = true
			}
		}
		if !tagged {
			continue
		}
		name := dc.obName()
		okd, why := dc.holds(e.L)
		total++
		res := "unsat"
		if okd {
			discharged++
		} else {
			res = "sat"
		}
		reports = append(reports, obReport{Name: name, Kind: "dispatch", Unit: pkgShort(dc.Pkg) + "." + dc.Type, Result: res, Solver: "go/types", Clause: dc.describe()})
		if !okd {
			violations++
			path := filepath.Join(replayRoot(), *prop, sanitize(name)+".json")
			os.MkdirAll(filepath.Dir(path), 0o755)
			os.WriteFile(path, []byte(fmt.Sprintf("{\"property\":%q,\"obligation\":%q,\"decided_by\":\"go/types\",\"reason\":%q}\n", *prop, name, why)), 0o644)
			fmt.Printf("VIOLATION property=%s replay=%s no-failing-input-found\n  failed obligation: %s [go/types]\n  reason: %s\n", *prop, path, name, why)
			exit = 1
		}
	}
	for _, ob := range undecided {
		fmt.Printf("UNDECIDED obligation=%s result=%s (not in baseline; not counted as discharged)\n", ob.Name, ob.Result)
	}
	if len(missing) > 0 {
		// A function under contract is gone and no renamed successor was found (typically: inlined into its caller, whose own
		// obligations are proved over the inlined code). Its contract can no longer be checked: undecided, not violated -
		// nothing here failed. The obligations it used to contribute are listed below as no longer generated.
		fmt.Printf("MISSING-FUNCTIONS: %s (their contracts are stale: not checked, not counted as discharged)\n", strings.Join(missing, ", "))
	}
	for _, u := range units {
		for _, s := range u.staleClauses {
			fmt.Printf("STALE-CLAUSE (dropped, undecided): %s\n", s)
		}
		for _, s := range u.rebinds {
			fmt.Printf("RE-BOUND: %s\n", s)
		}
		for _, s := range u.newLoops {
			fmt.Printf("NEW-LOOP (no invariant; what fails after it is undecided): %s\n", s)
		}
		seenCS := map[string]bool{}
		for _, s := range u.calleeStale {
			if !seenCS[s] {
				seenCS[s] = true
				fmt.Printf("STALE-CALLEE-CLAUSE (not assumed; failures of the unit are undecided): %s\n", s)
			}
		}
	}
	// baseline obligations that vanished
	if len(baseline) > 0 {
		have := map[string]bool{}
		for _, ob := range obs {
			have[ob.Name] = true
		}
		var gone []string
		for n := range baseline {
			if !have[n] {
				gone = append(gone, n)
			}
		}
		sort.Strings(gone)
		if len(gone) > 0 {
			fmt.Printf("NOTE: %d baseline obligations no longer generated (code shape changed): %s\n", len(gone), strings.Join(gone, ", "))
		}
	}
	if vacuous > 0 {
		exit = 2
	}
	wall := time.Since(t0).Seconds()
	// known findings are recorded defects, not proof obligations that are claimed: they are counted separately
	writeEvidence(*prop, *tier, seed, ps, units, reports, total-knownHits, discharged, violations, knownHits, len(undecided), vacuous, solverMs, agreement, wall, e, missing)
	if *writeBaseline {
		bl := map[string][]string{}
		data, err := os.ReadFile("/verif/baseline/obligations.json")
		if err == nil {
			json.Unmarshal(data, &bl)
		}
		var names []string
		for _, ob := range obs {
			if !ob.Canary && ob.Result == "unsat" {
				names = append(names, ob.Name)
			}
		}
		sort.Strings(names)
		bl[*prop] = names
		seenA := map[string]bool{}
		var anchors []string
		for _, n := range e.trivialAnchors {
			if !seenA[n] {
				seenA[n] = true
				anchors = append(anchors, n)
			}
		}
		sort.Strings(anchors)
		bl[*prop+"#anchors"] = anchors
		os.MkdirAll("/verif/baseline", 0o755)
		out, _ := json.MarshalIndent(bl, "", " ")
		os.WriteFile("/verif/baseline/obligations.json", append(out, '\n'), 0o644)
	}
	fmt.Printf("property=%s tier=%s units=%d obligations=%d discharged=%d violations=%d known=%d undecided=%d wall=%.1fs\n",
		*prop, *tier, len(units), total, discharged, violations, knownHits, len(undecided), wall)
	os.Exit(exit)
}

func writeReplay(prop string, ob *Obligation) string {
	dir := filepath.Join(replayRoot(), prop)
	os.MkdirAll(dir, 0o755)
	path := filepath.Join(dir, sanitize(ob.Name)+".json")
	vals := map[string]string{}
	m := map[string]interface{}{
		"property": prop, "obligation": ob.Name, "kind": ob.Kind, "function": funcName(ob.Unit.fn), "position": ob.Pos,
		"clause": ob.Clause, "solver": ob.Solver, "result": ob.Result, "solver_output": ob.Model, "inputs": vals,
		"value_names": ob.Unit.valueNames,
	}
	out, _ := json.MarshalIndent(m, "", " ")
	os.WriteFile(path, append(out, '\n'), 0o644)
	return path
}

func writeEvidence(prop, tier string, seed int, ps *propSpec, units []*Unit, reports []obReport, total, discharged, violations, knownHits, undecided, vacuous int,
	solverMs map[string]int64, agreement map[string]int, wall float64, e *Engine, missingFns []string) {
	var fns []string
	rebound, staleCl := []string{}, []string{}
	if missingFns == nil {
		missingFns = []string{}
	}
	externs := map[string]bool{}
	defaults := map[string]bool{}
	dyn := map[string]bool{}
	abstracted := map[string]int{}
	contractsUsed := map[string]bool{}
	ginv := map[string]bool{}
	var unsupported []string
	for _, u := range units {
		fns = append(fns, funcName(u.fn))
		for k := range u.externsUsed {
			externs[k] = true
		}
		for k := range u.defaultExt {
			defaults[k] = true
		}
		for k := range u.dynCalls {
			dyn[k] = true
		}
		for k, n := range u.abstracted {
			abstracted[k] += n
		}
		for k := range u.contractsUsed {
			contractsUsed[k] = true
		}
		unsupported = append(unsupported, u.unsupported...)
		rebound = append(rebound, u.rebinds...)
		staleCl = append(staleCl, u.staleClauses...)
		for _, g := range u.globalInvsUsed {
			ginv[g] = true
		}
	}
	keys := func(m map[string]bool) []string {
		var r []string
		for k := range m {
			r = append(r, k)
		}
		sort.Strings(r)
		return r
	}
	samples := []obReport{}
	for i, r := range reports {
		if i%((len(reports)/6)+1) == 0 {
			samples = append(samples, r)
		}
	}
	trusted := append([]string{}, ps.Trusted...)
	trusted = append(trusted,
		"go/types + go/ssa (x/tools v0.29.0) as the semantics of the source; govc VC generator (/verif/engine)",
		"z3 5.1.0 (z3-new), z3 4.8.12, cvc5 1.0",
		"integers mathematical (except byte truncation / wrap64 functions); time.Time as integer nanoseconds; SMT strings for Go strings",
		"sequential type-safe heap; append always reallocates; dynamic calls (interfaces, func values) return arbitrary values without side effects")
	for _, k := range keys(externs) {
		trusted = append(trusted, "assumed contract: "+k)
	}
	assumptions := append([]string{}, ps.Assume...)
	for _, k := range keys(defaults) {
		assumptions = append(assumptions, "default extern contract (arbitrary result, no effect, no panic): "+k)
	}
	for _, k := range keys(dyn) {
		assumptions = append(assumptions, "dynamic call treated as arbitrary result without side effects: "+k)
	}
	for _, k := range keys(ginv) {
		assumptions = append(assumptions, k)
	}
	for _, k := range keys(contractsUsed) {
		assumptions = append(assumptions, "callee contract assumed at call sites (proved in its own unit when listed): "+k)
	}
	ev := map[string]interface{}{
		"property_id": prop, "tier": tier, "seed": seed, "level": "proof", "wall_s": wall, "violations": violations,
		"assumptions": assumptions,
		"coverage": map[string]interface{}{
			"obligations": total, "discharged": discharged,
			"checker_cmd":              fmt.Sprintf("/verif/bin/govc check --property %s --tier %s", prop, tier),
			"trusted_base":             trusted,
			"samples":                  samples,
			"functions_under_contract": fns,
			"obligation_results":       reports,
			"solver_ms":                solverMs,
			"solver_agreement":         agreement,
			"abstracted_instructions":  abstracted,
			"unsupported":              unsupported,
			"known_findings_hit":       knownHits,
			"undecided":                undecided,
			"vacuity":                  map[string]interface{}{"canaries": len(units), "vacuous_units": vacuous},
			"stale_contracts":          e.stale,
			"stale_clauses_undecided":  staleCl,
			"contracts_rebound":        rebound,
			"functions_missing":        missingFns,
			"explanation":              "every obligation is a verification condition generated from /repo's current go/ssa and discharged (unsat of its negation) by an SMT solver",
		},
	}
	dir := "/verif/evidence"
	if d := os.Getenv("GOVC_EVIDENCE_DIR"); d != "" {
		dir = d // used by the self-test runner so that mutant runs do not overwrite real evidence
	}
	os.MkdirAll(dir, 0o755)
	out, _ := json.MarshalIndent(ev, "", " ")
	os.WriteFile(filepath.Join(dir, prop+".json"), append(out, '\n'), 0o644)
}

// tryReplay attempts to reproduce a failed obligation on the real code; see replay.go.
func tryReplay(e *Engine, prop string, ob *Obligation, path string) bool {
	return replayObligation(e, prop, ob, path)
}


// baselineHas matches per-return-site obligations (name@retN) against the baseline by clause name, so
// that adding or removing a return statement does not turn a failing clause into an "unknown new" one.
func baselineHas(bl map[string]bool, name string) bool {
	// occurrences of one obligation (same function, kind and access path) are numbered name, name~2, name~3 ...: a further
	// occurrence of a family that was discharged throughout on the unchanged tree belongs to the baseline
	if j := strings.LastIndex(name, "~"); j > 0 {
		if _, err := strconv.Atoi(name[j+1:]); err == nil && bl[name[:j]] {
			return true
		}
	}
	i := strings.Index(name, "@ret")
	if i < 0 {
		return false
	}
	prefix := name[:i] + "@ret"
	for k := range bl {
		if strings.HasPrefix(k, prefix) {
			return true
		}
	}
	return false
}

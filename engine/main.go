package main

import (
	"fmt"
	"os"
)

func main() {
	if len(os.Args) < 2 {
		fmt.Fprintln(os.Stderr, "usage: govc <dump|check|selftest> ...")
		os.Exit(2)
	}
	switch os.Args[1] {
	case "dump":
		cmdDump(os.Args[2:])
	case "functions":
		cmdFunctions(os.Args[2:])
	case "unit":
		cmdUnit(os.Args[2:])
	case "check":
		cmdCheck(os.Args[2:])
	case "replay":
		cmdReplay(os.Args[2:])
	default:
		fmt.Fprintln(os.Stderr, "unknown command")
		os.Exit(2)
	}
}

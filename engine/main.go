package main

import (
	"fmt"
	"os"
)

func main() {
	if len(os.Args) < 2 {
		fmt.Fprintln(os.Stderr, "usage: govc <dump|check|selftest> ...")
		os.Exit(2)
	}
	switch os.Args[1] {
	case "dump":
		cmdDump(os.Args[2:])
	case "loops":
		cmdLoops(os.Args[2:])
	case "functions":
		cmdFunctions(os.Args[2:])
	case "mods":
		e := setup()
		for _, a := range os.Args[2:] {
			if fn := e.funcs[a]; fn != nil {
				fmt.Println(a, e.modsetOf(fn).String())
			} else {
				fmt.Println("not found:", a)
			}
		}
	case "unit":
		cmdUnit(os.Args[2:])
	case "check":
		cmdCheck(os.Args[2:])
	case "replay":
		cmdReplay(os.Args[2:])
	default:
		fmt.Fprintln(os.Stderr, "unknown command")
		os.Exit(2)
	}
}

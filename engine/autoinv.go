package main

import (
	"fmt"
	"go/constant"
	"go/token"
	"go/types"
	"sort"

	"golang.org/x/tools/go/ssa"
)

// Automatic loop invariants that hold by construction of the loop's shape. They are assumed at the loop head (not
// obliged): the shape check below is the proof. They make the engine indifferent to which of several equivalent ways a
// search or counting loop is written, so that manual invariants are needed only for loops that accumulate something.

// autoCounting: `for i := c0; i < n; i++` with n fixed during the loop  =>  c0 <= i, and i <= n whenever c0 <= n.
func (fr *frame) autoCounting(li *loopInfo, entryVal func(*ssa.Phi) *Val, ns *State, reach string) {
	u := fr.u
	h := li.header
	ifi, ok := h.Instrs[len(h.Instrs)-1].(*ssa.If)
	if !ok {
		return
	}
	cmp, ok := ifi.Cond.(*ssa.BinOp)
	if !ok || cmp.Op != token.LSS {
		return
	}
	p, ok := cmp.X.(*ssa.Phi)
	if !ok || p.Block() != h || p.Comment == "rangeindex" || len(p.Edges) != 2 {
		return
	}
	if b, ok := p.Type().Underlying().(*types.Basic); !ok || b.Info()&types.IsInteger == 0 {
		return
	}
	var c0 *ssa.Const
	stepOK := false
	for i, e := range p.Edges {
		pred := h.Preds[i]
		if li.body[pred.Index] { // back edge: must be p + 1
			if bo, ok := e.(*ssa.BinOp); ok && bo.Op == token.ADD && bo.X == p {
				if k, ok := bo.Y.(*ssa.Const); ok && k.Value != nil && constant.Compare(k.Value, token.EQL, constant.MakeInt64(1)) {
					stepOK = true
				}
			}
		} else if k, ok := e.(*ssa.Const); ok && k.Value != nil {
			c0 = k
		}
	}
	if !stepOK || c0 == nil {
		return
	}
	// the bound: a constant, a value defined outside the loop, or len() of such a slice / string value
	var n string
	switch y := cmp.Y.(type) {
	case *ssa.Const:
		n = fr.valOf(y).t
	case *ssa.Call:
		if b, ok := y.Call.Value.(*ssa.Builtin); ok && b.Name() == "len" && len(y.Call.Args) == 1 {
			a := y.Call.Args[0]
			if fr.definedOutside(a, li) {
				switch a.Type().Underlying().(type) {
				case *types.Slice:
					n = fmt.Sprintf("(s-len %s)", fr.valOf(a).t)
				case *types.Basic:
					n = fmt.Sprintf("(str.len %s)", fr.valOf(a).t)
				}
			}
		}
	default:
		if fr.definedOutside(cmp.Y, li) {
			if v, ok := fr.vals[cmp.Y]; ok && v.t != "" {
				n = v.t
			}
		}
	}
	cur := fr.vals[p]
	if cur == nil || cur.t == "" {
		return
	}
	lo := fr.valOf(c0).t
	u.assume(reach, fmt.Sprintf("(<= %s %s)", lo, cur.t))
	if n != "" {
		u.assume(reach, fmt.Sprintf("(=> (<= %s %s) (<= %s %s))", lo, n, cur.t, n))
	}
	u.abstract("auto-invariant:counting-loop")
}

// autoSearched: a range loop whose body changes nothing (no stores, no effectful calls, no other loop-carried values) and
// leaves early through `if E { return / break }` on a block every iteration passes  =>  E was false in every completed
// iteration: forall q. -1 <= q < rangeindex  =>  not E[rangeindex := q].
func (fr *frame) autoSearched(li *loopInfo, ri *ssa.Phi, ns *State, reach string) {
	u := fr.u
	if ri == nil || len(li.backs) != 1 || fr.pure {
		return
	}
	h := li.header
	for _, in := range h.Instrs {
		if p, ok := in.(*ssa.Phi); ok && p != ri {
			return // something else is carried from one iteration to the next
		}
	}
	for idx := range li.body {
		for _, in := range fr.fn.Blocks[idx].Instrs {
			switch x := in.(type) {
			case *ssa.Store, *ssa.MapUpdate, *ssa.Send, *ssa.Go, *ssa.Defer, *ssa.RunDefers, *ssa.Panic:
				return
			case *ssa.Call:
				if !fr.effectFree(&x.Call) {
					return
				}
			}
		}
	}
	latch := li.backs[0]
	cur := fr.vals[ri]
	if cur == nil || cur.t == "" {
		return
	}
	var idxs []int
	for idx := range li.body {
		idxs = append(idxs, idx)
	}
	sort.Ints(idxs)
	for _, idx := range idxs {
		b := fr.fn.Blocks[idx]
		if b == h {
			continue
		}
		ifi, ok := b.Instrs[len(b.Instrs)-1].(*ssa.If)
		if !ok {
			continue
		}
		out := -1
		for si, s := range b.Succs {
			if !li.body[s.Index] {
				out = si
			}
		}
		if out < 0 || !(b == latch || b.Dominates(latch)) {
			continue
		}
		// the blocks every iteration runs through before reaching b, in order
		var chain []*ssa.BasicBlock
		for _, j := range idxs {
			d := fr.fn.Blocks[j]
			if d == b || d.Dominates(b) {
				chain = append(chain, d)
			}
		}
		sort.Slice(chain, func(i, j int) bool { return chain[i].Dominates(chain[j]) && chain[i] != chain[j] })
		nf := u.newFrame(fr.fn, fr.depth, true, fr.prefix)
		for k, v := range fr.vals {
			nf.vals[k] = v
		}
		nf.params = fr.params
		nf.entrySt = fr.entrySt
		q := u.fresh("q")
		nf.vals[ri] = &Val{t: q}
		nf.binders = fr.binders + 1
		var lets [][2]string
		nf.lets = &lets
		okExec := true
		func() {
			defer func() {
				if r := recover(); r != nil {
					okExec = false
				}
			}()
			for _, d := range chain {
				for _, in := range d.Instrs {
					switch in.(type) {
					case *ssa.Phi, *ssa.If, *ssa.Jump, *ssa.DebugRef:
						continue
					}
					nf.execInstr(in, ns, "true", d)
				}
			}
		}()
		cv, have := nf.vals[ifi.Cond]
		if !okExec || !have || cv.t == "" {
			continue
		}
		body := cv.t
		if out == 1 {
			body = not(body) // the false branch leaves the loop: E is the negated condition
		}
		body = not(body)
		for i := len(lets) - 1; i >= 0; i-- {
			body = fmt.Sprintf("(let ((%s %s)) %s)", lets[i][0], lets[i][1], body)
		}
		u.assume(reach, fmt.Sprintf("(forall ((%s Int)) (=> (and (<= (- 1) %s) (< %s %s)) %s))", q, q, q, cur.t, body))
		u.abstract("auto-invariant:search-loop")
	}
}

// effectFree: builtins without effect, native string predicates, dependencies assumed pure.
func (fr *frame) effectFree(c *ssa.CallCommon) bool {
	if b, ok := c.Value.(*ssa.Builtin); ok {
		switch b.Name() {
		case "len", "cap", "min", "max":
			return true
		}
		return false
	}
	if c.IsInvoke() {
		return false
	}
	f := c.StaticCallee()
	if f == nil {
		return false
	}
	switch externKey(f) {
	case "strings.HasPrefix", "strings.HasSuffix", "strings.Contains", "strings.TrimPrefix", "strings.TrimSuffix", "strings.EqualFold", "strings.CutPrefix", "strings.CutSuffix":
		return true
	}
	if ec := fr.u.eng.externs[externKey(f)]; ec != nil && ec.Pure {
		return true
	}
	return false
}

// autoAppendOnly: a slice variable that the loop changes only by `x = append(x, ...)`, in a loop in which nothing else
// writes an element of that type, keeps what it held on entry: it never gets shorter and its leading elements stay
// what they were. (That is what makes "append every value in an inner loop, store the slice once" provable against a
// clause that says "what was there before is still there" - no manual invariant can be expected for a local the
// contract has never heard of.)
func (fr *frame) autoAppendOnly(li *loopInfo, entryVal func(*ssa.Phi) *Val, st, ns *State, reach string) {
	u := fr.u
	h := li.header
	for _, in := range h.Instrs {
		p, ok := in.(*ssa.Phi)
		if !ok {
			break
		}
		sl, ok := p.Type().Underlying().(*types.Slice)
		if !ok || len(p.Edges) != len(h.Preds) {
			continue
		}
		chainSet := map[ssa.Value]bool{p: true}
		var chain func(v ssa.Value) bool
		chain = func(v ssa.Value) bool {
			if chainSet[v] {
				return true
			}
			switch x := v.(type) {
			case *ssa.Call:
				if b, isB := x.Call.Value.(*ssa.Builtin); isB && b.Name() == "append" && len(x.Call.Args) >= 1 {
					if chain(x.Call.Args[0]) {
						chainSet[v] = true
						return true
					}
				}
			case *ssa.Phi:
				if x.Block() != nil && li.body[x.Block().Index] && x.Block() != h {
					chainSet[v] = true // assume, check the edges
					for _, e := range x.Edges {
						if !chain(e) {
							delete(chainSet, v)
							return false
						}
					}
					return true
				}
			}
			return false
		}
		good, hasBack := true, false
		for i, e := range p.Edges {
			if li.body[h.Preds[i].Index] {
				hasBack = true
				if !chain(e) {
					good = false
				}
			}
		}
		if !good || !hasBack || !fr.onlyChainWrites(li, sl.Elem(), chainSet) {
			continue
		}
		ev, hv := entryVal(p), fr.vals[p]
		if ev == nil || hv == nil || ev.t == "" || hv.t == "" {
			continue
		}
		s := u.sorts
		es := s.sortOf(sl.Elem())
		name := "E:" + s.typeKey(sl.Elem())
		hs := "(Array Int (Array Int " + es + "))"
		h0, h1 := u.heapGet(st, name, hs), u.heapGet(ns, name, hs)
		j := u.fresh("j")
		u.assume(reach, fmt.Sprintf("(and (>= (s-len %s) (s-len %s)) (forall ((%s Int)) (=> (and (<= 0 %s) (< %s (s-len %s))) (= (select (select %s (s-arr %s)) (+ (s-off %s) %s)) (select (select %s (s-arr %s)) (+ (s-off %s) %s))))))",
			hv.t, ev.t, j, j, j, ev.t, h1, hv.t, hv.t, j, h0, ev.t, ev.t, j))
		u.abstract("auto-invariant:append-only")
		// ... and, when it is the only such accumulator of its element type in the loop, nothing that existed on entry has
		// changed except the free capacity behind the accumulator: an append writes behind the length of the slice it
		// extends, or into a new array.
		others := 0
		for _, in2 := range h.Instrs {
			p2, isPhi := in2.(*ssa.Phi)
			if !isPhi {
				break
			}
			if sl2, isSl := p2.Type().Underlying().(*types.Slice); isSl && p2 != p && types.Identical(sl2.Elem(), sl.Elem()) {
				others++
			}
		}
		if others == 0 {
			a, i := u.fresh("a"), u.fresh("i")
			u.assume(reach, fmt.Sprintf("(forall ((%s Int) (%s Int)) (=> (and (< %s %s) (or (not (= %s (s-arr %s))) (< %s (+ (s-off %s) (s-len %s))))) (= (select (select %s %s) %s) (select (select %s %s) %s))))",
				a, i, a, st.alloc, a, ev.t, i, ev.t, ev.t, h1, a, i, h0, a, i))
		}
	}
}

// onlyChainWrites: inside the loop, elements of type et are written by nothing but the appends of the chain.
func (fr *frame) onlyChainWrites(li *loopInfo, et types.Type, chainSet map[ssa.Value]bool) bool {
	sameElem := func(t types.Type) bool {
		switch x := t.Underlying().(type) {
		case *types.Slice:
			return types.Identical(x.Elem(), et)
		case *types.Pointer:
			if a, ok := x.Elem().Underlying().(*types.Array); ok {
				return types.Identical(a.Elem(), et)
			}
		}
		return false
	}
	var throughIndex func(v ssa.Value) bool
	throughIndex = func(v ssa.Value) bool {
		switch x := v.(type) {
		case *ssa.IndexAddr:
			return sameElem(x.X.Type()) || throughIndex(x.X)
		case *ssa.FieldAddr:
			return throughIndex(x.X)
		}
		return false
	}
	key := "E:" + fr.u.eng.keySorts.typeKey(et)
	for _, b := range fr.fn.Blocks {
		if !li.body[b.Index] {
			continue
		}
		for _, in := range b.Instrs {
			switch x := in.(type) {
			case *ssa.Store:
				if throughIndex(x.Addr) {
					return false
				}
			case ssa.CallInstruction:
				c := x.Common()
				if bi, isB := c.Value.(*ssa.Builtin); isB {
					switch bi.Name() {
					case "append":
						if len(c.Args) > 0 && sameElem(c.Args[0].Type()) {
							if v, isV := in.(ssa.Value); !isV || !chainSet[v] {
								return false
							}
						}
					case "copy", "clear":
						if len(c.Args) > 0 && sameElem(c.Args[0].Type()) {
							return false
						}
					}
					continue
				}
				for k := range fr.u.eng.callMods(c, fr) {
					if k == "*" || k == key || k == "P"+key {
						return false
					}
				}
			}
		}
	}
	return true
}

package main

import (
	"fmt"
	"go/types"
	"os"
	"strings"

	"golang.org/x/tools/go/packages"
	"golang.org/x/tools/go/ssa"
	"golang.org/x/tools/go/ssa/ssautil"
)

// repoDir is the tree under verification: /repo. GOVC_REPO points the self-test corpus at a scratch worktree of /repo
// instead, so that seeded changes can be checked in parallel without touching /repo; no registered check sets it.
var repoDir = func() string {
	if d := os.Getenv("GOVC_REPO"); d != "" {
		return d
	}
	return "/repo"
}()
const modPath = "github.com/crewjam/saml"

type Loaded struct {
	Pkgs  []*packages.Package
	Prog  *ssa.Program
	SSA   map[string]*ssa.Package // by import path
	ByPath map[string]*packages.Package
}

func loadRepo(overlay map[string][]byte) (*Loaded, error) {
	cfg := &packages.Config{
		Mode: packages.NeedName | packages.NeedFiles | packages.NeedCompiledGoFiles | packages.NeedImports |
			packages.NeedDeps | packages.NeedTypes | packages.NeedSyntax | packages.NeedTypesInfo | packages.NeedTypesSizes | packages.NeedModule,
		Dir:        repoDir,
		BuildFlags: []string{"-tags=verif", "-mod=mod"},
		Env:        append(os.Environ(), "GOFLAGS=-mod=mod", "GOPROXY=off", "GOSUMDB=off", "GOTOOLCHAIN=local"),
		Overlay:    overlay,
	}
	pkgs, err := packages.Load(cfg, ".", "./xmlenc", "./samlsp", "./samlidp")
	if err != nil {
		return nil, err
	}
	var errs []string
	for _, p := range pkgs {
		for _, e := range p.Errors {
			errs = append(errs, e.Error())
		}
	}
	if len(errs) > 0 {
		return nil, fmt.Errorf("load errors:\n%s", strings.Join(errs, "\n"))
	}
	prog, spkgs := ssautil.AllPackages(pkgs, ssa.GlobalDebug)
	prog.Build()
	l := &Loaded{Pkgs: pkgs, Prog: prog, SSA: map[string]*ssa.Package{}, ByPath: map[string]*packages.Package{}}
	for i, p := range pkgs {
		l.SSA[p.PkgPath] = spkgs[i]
		l.ByPath[p.PkgPath] = p
	}
	return l, nil
}

// findFunc resolves "pkg.Func" or "pkg.(*T).M" / "pkg.(T).M" with pkg = saml|xmlenc|samlsp|samlidp
func (l *Loaded) findFunc(name string) *ssa.Function {
	i := strings.Index(name, ".")
	if i < 0 {
		return nil
	}
	short, rest := name[:i], name[i+1:]
	path := modPath
	if short != "saml" {
		path = modPath + "/" + short
	}
	sp := l.SSA[path]
	if sp == nil {
		return nil
	}
	if strings.HasPrefix(rest, "(") {
		j := strings.Index(rest, ").")
		recv, m := rest[1:j], rest[j+2:]
		ptr := strings.HasPrefix(recv, "*")
		recv = strings.TrimPrefix(recv, "*")
		tn, _ := sp.Pkg.Scope().Lookup(recv).(*types.TypeName)
		if tn == nil {
			return nil
		}
		var t types.Type = tn.Type()
		if ptr {
			t = types.NewPointer(t)
		}
		sel := l.Prog.MethodSets.MethodSet(t).Lookup(sp.Pkg, m)
		if sel == nil {
			return nil
		}
		return l.Prog.MethodValue(sel)
	}
	if strings.Contains(rest, "$") {
		k := strings.Index(rest, "$")
		f := sp.Func(rest[:k])
		if f == nil {
			return nil
		}
		for _, a := range f.AnonFuncs {
			if a.Name() == rest {
				return a
			}
		}
		return nil
	}
	return sp.Func(rest)
}

func cmdDump(args []string) {
	l, err := loadRepo(nil)
	if err != nil {
		fmt.Fprintln(os.Stderr, err)
		os.Exit(2)
	}
	for _, a := range args {
		f := l.findFunc(a)
		if f == nil {
			fmt.Println("not found:", a)
			continue
		}
		f.WriteTo(os.Stdout)
	}
}

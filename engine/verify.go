package main

import (
	"go/token"
	"fmt"
	"go/ast"
	"go/types"
	"sort"
	"strings"

	"golang.org/x/tools/go/ssa"
)

func (e *Engine) newUnit(fn *ssa.Function) *Unit {
	u := e.newUnit0(fn)
	// map-value heaps of registries declared "distinct": known before any heap version is created
	for key, inv := range e.mapInv {
		if !strings.Contains(inv, "distinct") || !strings.HasPrefix(key, "F:") {
			continue
		}
		parts := strings.Split(key[2:], ".")
		if len(parts) != 3 {
			continue
		}
		for _, sp := range e.L.SSA {
			if sp == nil || sp.Pkg.Name() != parts[0] {
				continue
			}
			tn, ok := sp.Pkg.Scope().Lookup(parts[1]).(*types.TypeName)
			if !ok {
				continue
			}
			stt, ok := tn.Type().Underlying().(*types.Struct)
			if !ok {
				continue
			}
			for i := 0; i < stt.NumFields(); i++ {
				if mt, ok := stt.Field(i).Type().Underlying().(*types.Map); ok && stt.Field(i).Name() == parts[2] {
					key := u.sorts.typeKey(mt.Key()) + "=>" + u.sorts.typeKey(mt.Elem())
					u.distinctHeaps["MV:"+key] = u.sorts.sortOf(mt.Key())
					// (the frozen rule is an obligation of the registry's own package: other packages never see the registry)
					if pt, ok := mt.Elem().Underlying().(*types.Pointer); ok && strings.Contains(inv, "frozen") && fn.Pkg != nil && fn.Pkg.Pkg.Name() == parts[0] {
						u.frozenHeaps["H:"+u.sorts.typeKey(pt.Elem())] = mt
					}
				}
			}
		}
	}
	return u
}

func (e *Engine) newUnit0(fn *ssa.Function) *Unit {
	return &Unit{eng: e, distinctHeaps: map[string]string{}, frozenHeaps: map[string]*types.Map{}, sorts: newSorts(), fn: fn, heapSort: map[string]string{}, initHeap: map[string]string{},
		obNames: map[string]int{}, abstracted: map[string]int{}, externsUsed: map[string]bool{}, defaultExt: map[string]bool{},
		dynCalls: map[string]bool{}, values: map[string]string{}, contractsUsed: map[string]bool{}, assertsSeen: map[string]bool{}, nonNil: map[string]bool{}}
}

var safetyKinds = map[string]bool{"nil": true, "idx": true, "slice": true, "typeassert": true, "panic": true, "div0": true, "mapwrite": true}

// verifyFunc generates all obligations of one function (the unit).
func (e *Engine) verifyFunc(fn *ssa.Function) (u *Unit) {
	u = e.newUnit(fn)
	defer func() {
		if r := recover(); r != nil {
			u.unsupport("%s: engine panic: %v", funcName(fn), r)
		}
	}()
	if len(fn.Blocks) == 0 {
		u.unsupport("%s: no body", funcName(fn))
		return u
	}
	ct := e.contracts[funcName(fn)]
	u.servesRequest = servesRequest(fn)
	st := &State{h: map[string]string{}}
	st.alloc = u.declare("alloc0", "Int")
	u.alloc0 = st.alloc
	u.assume("true", fmt.Sprintf("(> %s 0)", st.alloc))
	fr := u.newFrame(fn, 0, false, "")
	fr.contract = ct
	fr.top = true
	var params []*Val
	for i, p := range fn.Params {
		n := u.declare("p."+p.Name(), u.sorts.sortOf(p.Type()))
		fr.assumeWF(p.Type(), n, st, "true")
		if e.wrap64[fn] {
			if bits, uns := intBits(p.Type()); bits == 64 && !uns {
				u.assume("true", fmt.Sprintf("(and (<= (- 9223372036854775808) %s) (<= %s 9223372036854775807))", n, n))
			}
		}
		params = append(params, &Val{t: n})
		u.addValue(p.Name(), n)
		if lk := lockInside(p.Type(), 0); lk != "" {
			// a mutex passed by value is another mutex: what the callee locks excludes nobody who locks the original
			u.oblige(fr.obName("lock-copy", p.Name()), "lock", []string{"C19", "C20"}, "true", "false", fr.pos(fn.Pos()),
				"parameter "+p.Name()+" ("+types.TypeString(p.Type(), nil)+") carries "+lk+" by value: the function locks a copy")
		}
		if i == 0 && fn.Signature.Recv() != nil {
			if _, ok := p.Type().Underlying().(*types.Pointer); ok {
				// implicit precondition of every method: non-nil pointer receiver
				u.assume("true", fmt.Sprintf("(not (= %s 0))", n))
				u.nonNil[n] = true
			}
		}
	}
	var bindings []*Val
	for _, fv := range fn.FreeVars {
		n := u.declare("fv."+fv.Name(), u.sorts.sortOf(fv.Type()))
		fr.assumeWF(fv.Type(), n, st, "true")
		if _, ok := fv.Type().Underlying().(*types.Pointer); ok {
			// a free variable is the address of the captured variable's cell: never nil
			u.assume("true", fmt.Sprintf("(not (= %s 0))", n))
			u.nonNil[n] = true
		}
		bindings = append(bindings, &Val{t: n})
	}
	if fn.Name() == "init" && fn.Synthetic != "" && fn.Pkg != nil {
		// the package initialiser runs once: its guard is false on entry
		g := u.heapGet(st, "G:"+fn.Pkg.Pkg.Path()+".init$guard", "Bool")
		u.assume("true", not(g))
	}
	// implicit precondition of every unit: the request holds no lock on entry (callers that hold one while
	// calling are checked at their call sites: requires NoLocksHeld() / inlining)
	u.heapSet(st, "GH:locks", "(Array Int Int)", "((as const (Array Int Int)) 0)")
	u.heapSet(st, "GH:lockuses", "(Array Int Int)", "((as const (Array Int Int)) 0)")
	u.emitAxioms(fr, st)
	isInit := fn.Name() == "init" && fn.Synthetic != "" && fn.Pkg != nil
	var establish []*GlobalInv
	for _, gi := range e.globalInvs {
		c := &Clause{Fn: gi.Fn, FnName: gi.FnName, Label: gi.Label}
		if isInit && gi.Checked && gi.Fn.Pkg == fn.Pkg {
			// the package initialiser is where the invariant is established: proved at its exit, not assumed at its entry
			establish = append(establish, gi)
			continue
		}
		u.assume("true", fr.evalSpec(c, nil, st, nil))
		if gi.Checked {
			u.globalInvsUsed = append(u.globalInvsUsed, "globalinv (variables never assigned outside init): "+gi.Text)
		} else {
			u.globalInvsUsed = append(u.globalInvsUsed, "configinv (assumed configuration): "+gi.Text)
		}
	}
	pre := st.clone()
	if ct != nil {
		for _, r := range ct.Requires {
			if r.Fn == nil {
				// a clause that no longer type-checks against the code cannot be evaluated: undecided, not violated (noted in
				// STALE-CONTRACTS and in the evidence); the body is verified without the assumption
				u.staleClauses = append(u.staleClauses, fmt.Sprintf("%s: precondition %s -- %s", funcName(fn), r.Label, e.broken[r.FnName]))
				u.preStale = true
				continue
			}
			u.assume("true", fr.evalSpec(r, params, st, nil))
		}
	}
	res, exitReach, exitSt := fr.run(params, bindings, st, "true")
	for i, r := range res {
		name := fmt.Sprintf("ret%d", i)
		u.addValue(name, fr.valTerm(r, exitSt))
	}
	if ct != nil {
		for _, c := range ct.Ensures {
			if c.Canary || c.Records || ct.Trusted {
				continue
			}
			if c.Fn == nil {
				u.staleClauses = append(u.staleClauses, fmt.Sprintf("%s: postcondition %s -- %s", funcName(fn), c.Label, e.broken[c.FnName]))
				continue
			}
			if len(fr.rets) <= 1 || c.Merged {
				t := fr.evalSpec(c, append(append([]*Val{}, params...), res...), exitSt, pre)
				if ob := u.oblige(fr.obName("ensures", c.Label), "ensures", c.Tags, exitReach, t, fr.pos(fn.Pos()), c.Text); ob != nil {
					ob.SpecFn = c.FnName
				}
				continue
			}
			// one query per return site: each has a concrete path, which the solvers handle far better
			for ri, r := range fr.retsByPos() {
				t := fr.evalSpec(c, append(append([]*Val{}, params...), r.vals...), r.st, pre)
				if ob := u.oblige(fr.obName("ensures", fmt.Sprintf("%s@ret%d", c.Label, ri+1)), "ensures", c.Tags, r.reach, t, r.pos, c.Text); ob != nil {
					ob.SpecFn = c.FnName
				}
			}
		}
	}
	if ct != nil {
		for _, cl := range ct.Loops {
			if cl.Loop > len(fr.loops) {
				// the loop the invariant was written for is gone (moved into a helper, replaced by a library call): dropped
				// with a note; what it was needed for is checked where it matters, at the postconditions
				u.rebinds = append(u.rebinds, fmt.Sprintf("%s: invariant %s names loop %d but the function has %d loops (dropped)", funcName(fn), cl.Label, cl.Loop, len(fr.loops)))
			}
		}
		for _, cl := range ct.Loops {
			if cl.Fn == nil {
				u.staleClauses = append(u.staleClauses, fmt.Sprintf("%s: invariant %s of loop %d -- %s", funcName(fn), cl.Label, cl.Loop, e.broken[cl.FnName]))
			}
		}
		for _, cl := range ct.Asserts {
			if cl.Fn == nil {
				u.staleClauses = append(u.staleClauses, fmt.Sprintf("%s: assertion %s -- %s", funcName(fn), cl.Label, e.broken[cl.FnName]))
				continue
			}
			// `#each` is about every occurrence and says nothing when there is none; `#0` (every occurrence, at least one)
			// and the numbered forms fail when their call is gone
			if !u.assertsSeen[cl.Label] && !cl.Each {
				u.oblige(fr.obName("assert", cl.Label), "assert", cl.Tags, "true", "false", fr.pos(fn.Pos()),
					"anchor call site not found: "+cl.Callee+" #"+fmt.Sprint(cl.Ordinal)+" -- "+cl.Text)
			}
		}
	}
	for _, gi := range establish {
		c := &Clause{Fn: gi.Fn, FnName: gi.FnName, Label: gi.Label}
		u.oblige(fr.obName("globalinv", gi.Label), "ensures", nil, exitReach, fr.evalSpec(c, nil, exitSt, nil), fr.pos(fn.Pos()),
			"package initialisation establishes the global invariant: "+gi.Text)
	}
	if u.locksUsed {
		for ri, r := range fr.retsByPos() {
			h := u.heapGet(r.st, "GH:locks", "(Array Int Int)")
			u.oblige(fr.obName("lock-balanced", fmt.Sprintf("ret%d", ri+1)), "lock", []string{"C20"}, r.reach,
				fmt.Sprintf("(= %s ((as const (Array Int Int)) 0))", h), r.pos, "every lock taken by the function is released on this return path")
		}
	}
	if ob := u.oblige(fr.obName("canary", "exit-unreachable"), "canary", nil, exitReach, "false", "", "vacuity canary: must be refutable"); ob != nil {
		ob.Canary = true
	}
	return u
}

// lockInside: does a value of type t contain a sync.Mutex / sync.RWMutex (not behind a pointer)? Returns its description.
func lockInside(t types.Type, depth int) string {
	if depth > 6 {
		return ""
	}
	if n, ok := t.(*types.Named); ok && n.Obj().Pkg() != nil && n.Obj().Pkg().Path() == "sync" {
		switch n.Obj().Name() {
		case "Mutex", "RWMutex":
			return "a sync." + n.Obj().Name()
		}
	}
	switch x := t.Underlying().(type) {
	case *types.Struct:
		for i := 0; i < x.NumFields(); i++ {
			if s := lockInside(x.Field(i).Type(), depth+1); s != "" {
				return s + " (field " + x.Field(i).Name() + ")"
			}
		}
	case *types.Array:
		return lockInside(x.Elem(), depth+1)
	}
	return ""
}

func (u *Unit) addValue(name, term string) {
	u.values[name] = term
	u.valueTerms = append(u.valueTerms, term)
	u.valueNames = append(u.valueNames, name)
	u.valueIdx = append(u.valueIdx, len(u.cmds))
}

// callOrdinals: for assert@call matching, occurrences of a callee in source order.
func calleeLabel(fr *frame, c *ssa.CallCommon) []string {
	var names []string
	if !c.IsInvoke() && c.StaticCallee() == nil {
		if b, isB := c.Value.(*ssa.Builtin); isB {
			return []string{b.Name()}
		}
		return []string{funcValueKey(fr, c.Value)}
	}
	if c.IsInvoke() {
		names = append(names, c.Method.Name(), c.Method.FullName())
		return names
	}
	if f := c.StaticCallee(); f != nil {
		names = append(names, f.Name(), externKey(f), funcName(f))
		if f.Pkg != nil && f.Pkg.Pkg != nil {
			names = append(names, f.Pkg.Pkg.Name()+"."+f.Name())
		}
	}
	return names
}

// anchorRoot: the frame whose contract's anchored assertions apply to the instructions of fr - fr itself when it is the
// unit's function, and the unit's frame when fr is the body of a function without a contract inlined (at any depth)
// into it. An anchor of the unit's contract that the unit's own body no longer contains is looked for in those inlined
// bodies: moving a block into a new helper does not detach the assertion from the call or store it was written for.
func (fr *frame) anchorRoot() *frame {
	if fr.pure {
		return nil
	}
	r := fr
	for r.parent != nil {
		r = r.parent
	}
	if r.depth != 0 || r.contract == nil || r.pure {
		return nil
	}
	return r
}

// callArgTypes: the types of a call's arguments as an anchored clause sees them (receiver or function value first).
func callArgTypes(c *ssa.CallCommon) []types.Type {
	var ats []types.Type
	if c.IsInvoke() {
		ats = append(ats, c.Value.Type())
	} else if c.StaticCallee() == nil {
		if _, isB := c.Value.(*ssa.Builtin); !isB {
			ats = append(ats, c.Value.Type())
		}
	}
	for _, a := range c.Args {
		ats = append(ats, a.Type())
	}
	return ats
}

// callSitesOf: the calls in fn's body that match an anchor name - and, when the clause names the call's arguments, whose
// argument types are the ones the clause declares - in source order. (A call of another function that merely shares
// the bare name, hex.EncodeToString beside (*base64.Encoding).EncodeToString, is not a site of the anchor.)
func (fr *frame) callSitesOf(name string, cl *Clause, nparams int) []ssa.CallInstruction {
	var sites []ssa.CallInstruction
	for _, b := range fr.fn.Blocks {
		for _, in := range b.Instrs {
			if ci, ok := in.(ssa.CallInstruction); ok {
				for _, l := range calleeLabel(fr, ci.Common()) {
					if fr.u.eng.anchorNameIs(name, l) {
						fit := true
						if cl != nil && cl.Fn != nil {
							need := len(cl.Fn.Params) - nparams - len(cl.VarNames)
							ats := callArgTypes(ci.Common())
							if need > len(ats) {
								fit = false
							}
							for i := 0; fit && i < need; i++ {
								pt := cl.Fn.Params[nparams+i].Type()
								if !types.Identical(pt, ats[i]) && !types.AssignableTo(ats[i], pt) {
									fit = false
								}
							}
						}
						if fit {
							sites = append(sites, ci)
						}
						break
					}
				}
			}
		}
	}
	sort.Slice(sites, func(i, j int) bool { return sites[i].Pos() < sites[j].Pos() })
	return sites
}

// anchorLocal resolves a `uses` local of an anchored assertion: in the frame of the anchor, then in the frames it is
// inlined into (as of the inlined call).
func (fr *frame) anchorLocal(name string, at ssa.Instruction, st *State) *Val {
	for f, a := fr, at; f != nil && a != nil; f, a = f.parent, f.via {
		if v := f.localNamed(name, a, st); v != nil {
			return v
		}
	}
	// The block that declared the local has been moved into a helper which has returned by now: the helper's local of that
	// name, as it stands at the anchor (a variable whose address was taken is read from the state at the anchor). Only
	// when exactly one completed helper has such a local.
	if strings.HasPrefix(name, "reached:") {
		return nil
	}
	var found *Val
	n := 0
	var walk func(f *frame)
	walk = func(f *frame) {
		for _, d := range f.done {
			if ret := d.lastReturn(); ret != nil {
				if v := d.localNamed(strings.TrimSuffix(name, "?"), ret, st); v != nil {
					found = v
					n++
					fr.u.rebinds = append(fr.u.rebinds, fmt.Sprintf("local %s of an anchored assertion found in the completed helper %s (inlined: no contract of its own)", name, funcName(d.fn)))
				}
			}
			walk(d)
		}
	}
	for f := fr; f != nil; f = f.parent {
		walk(f)
	}
	if n == 1 {
		return found
	}
	return nil
}

// lastReturn: the return statement that is last in the source (where a helper that ran to its end leaves).
func (fr *frame) lastReturn() ssa.Instruction {
	var best ssa.Instruction
	for _, b := range fr.fn.Blocks {
		for _, in := range b.Instrs {
			if r, ok := in.(*ssa.Return); ok && (best == nil || r.Pos() > best.Pos()) {
				best = r
			}
		}
	}
	return best
}

func (fr *frame) callSiteAsserts(call ssa.CallInstruction, args []*Val, st *State, reach string) {
	root := fr.anchorRoot()
	if root == nil || len(root.contract.Asserts) == 0 {
		return
	}
	c := call.Common()
	labels := calleeLabel(fr, c)
	for _, cl := range root.contract.Asserts {
		if cl.AtStore || cl.AtReturn {
			continue
		}
		match := false
		for _, l := range labels {
			if fr.u.eng.anchorNameIs(cl.Callee, l) {
				match = true
			}
		}
		if !match {
			continue
		}
		if fr != root && len(root.callSitesOf(cl.Callee, cl, len(root.params))) > 0 {
			continue // the unit's own body has the anchor
		}
		// ordinal among matching calls in source order
		if cl.Ordinal > 0 {
			sites := fr.callSitesOf(cl.Callee, cl, len(root.params))
			if cl.Ordinal > len(sites) || sites[cl.Ordinal-1] != call {
				continue
			}
		}
		if cl.Fn == nil {
			continue
		}
		sargs := append([]*Val{}, root.params...)
		need := len(cl.Fn.Params) - len(sargs) - len(cl.VarNames)
		if need < 0 || need > len(args) {
			fr.u.eng.stale = append(fr.u.eng.stale, "assert@call "+cl.Label+": parameter mismatch")
			continue
		}
		picked := args[:need]
		if f := c.StaticCallee(); f != nil && isRepoFunc(f) && len(f.Params) == len(args) && need > 0 {
			// the clause's names for the call's arguments are the callee's own parameter names: bound by name, so that a
			// re-ordering of the callee's parameters does not change what the assertion says
			byName := map[string]*Val{}
			for i, p := range f.Params {
				byName[p.Name()] = args[i]
			}
			var named []*Val
			for i := 0; i < need; i++ {
				if v, ok := byName[cl.Fn.Params[len(root.params)+i].Name()]; ok {
					named = append(named, v)
				}
			}
			if len(named) == need {
				picked = named
			}
		}
		sargs = append(sargs, picked...)
		if cl.Ordinal == 0 {
			// "every occurrence" anchors apply only to calls whose argument types fit the clause
			fit := true
			var ats []types.Type
			if c.IsInvoke() {
				ats = append(ats, c.Value.Type())
			} else if c.StaticCallee() == nil {
				if _, isB := c.Value.(*ssa.Builtin); !isB {
					ats = append(ats, c.Value.Type())
				}
			}
			for _, a := range c.Args {
				ats = append(ats, a.Type())
			}
			for i := 0; i < need && i < len(ats); i++ {
				if !types.Identical(cl.Fn.Params[len(root.params)+i].Type(), ats[i]) {
					fit = false
				}
			}
			if !fit {
				continue
			}
		}
		okLocals := true
		for j, name := range cl.VarLocal {
			lv := fr.anchorLocal(name, call, st)
			if lv == nil && len(sargs)+(len(cl.VarLocal)-j) == len(cl.Fn.Params) {
				lv = fr.localByType(name, cl.Fn.Params[len(sargs)].Type(), call, st)
			}
			if lv == nil {
				if !strings.HasSuffix(name, "?") && !strings.HasPrefix(name, "reached:") {
					fr.u.eng.stale = append(fr.u.eng.stale, "assert@call "+cl.Label+": local "+name+" not found")
				}
				okLocals = false
				break
			}
			sargs = append(sargs, lv)
		}
		if !okLocals {
			continue
		}
		t := fr.evalSpec(cl, sargs, st, nil)
		fr.u.oblige(root.obName("assert", cl.Label), "assert", cl.Tags, reach, t, fr.pos(call.Pos()), cl.Text)
		fr.u.assertsSeen[cl.Label] = true
		if fr != root {
			fr.u.rebinds = append(fr.u.rebinds, fmt.Sprintf("%s: assertion %s anchored at the call of %s in %s (inlined: no contract of its own)", funcName(root.fn), cl.Label, cl.Callee, funcName(fr.fn)))
		}
		if cl.DeriveFn != nil {
			// the premise has just been obliged; the derived ghost fact holds from here on
			dc := &Clause{Fn: cl.DeriveFn, FnName: cl.DeriveFnName, Label: cl.Label}
			fr.u.assume(reach, fr.evalSpec(dc, sargs, st, nil))
		}
	}
}

func describeUnit(u *Unit) string {
	var b strings.Builder
	fmt.Fprintf(&b, "unit %s: %d obligations, %d cmds\n", funcName(u.fn), len(u.obs), len(u.cmds))
	return b.String()
}


// localNamed finds the value of the source-level local variable `name` as of instruction `at`:
// the latest DebugRef of that variable which dominates `at` (go/ssa GlobalDebug mode).
func (fr *frame) localNamed(name string, at ssa.Instruction, st *State) *Val {
	// `local.f.g`: a field path of a local - the way to reach into values of anonymous (unnameable) struct types, such
	// as the alias structs of the (Un)MarshalXML methods
	if i := strings.Index(name, "."); i > 0 && !strings.HasPrefix(name, "reached:") {
		base, path := name[:i], strings.Split(name[i+1:], ".")
		v, t := fr.localNamedT(base, at, st)
		if v == nil {
			return nil
		}
		for _, f := range path {
			v, t = fr.projectField(v, t, f, st)
			if v == nil {
				return nil
			}
		}
		return v
	}
	v, _ := fr.localNamedT(name, at, st)
	return v
}

// localByType is the fallback when a clause names a local that no longer exists anywhere in the function (renamed):
// if exactly one source-level variable of the wanted type is visible at the anchor, it is taken instead, and the unit
// notes the re-binding. Anything ambiguous stays unbound (and the clause fails as before).
func (fr *frame) localByType(name string, want types.Type, at ssa.Instruction, st *State) *Val {
	if want == nil || strings.ContainsAny(name, ".?:") {
		return nil
	}
	// the name must be gone from the whole function
	for _, b := range fr.fn.Blocks {
		for _, in := range b.Instrs {
			if d, ok := in.(*ssa.DebugRef); ok {
				if id, ok := d.Expr.(*ast.Ident); ok && id.Name == name {
					return nil
				}
			}
			if p, ok := in.(*ssa.Phi); ok && p.Comment == name {
				return nil
			}
		}
	}
	for _, l := range fr.fn.Locals {
		if l.Comment == name {
			return nil
		}
	}
	isParam := map[string]bool{}
	for _, p := range fr.fn.Params {
		isParam[p.Name()] = true
	}
	names := map[string]bool{}
	atBlock := at.Block()
	for _, b := range fr.fn.Blocks {
		if !(b == atBlock || b.Dominates(atBlock)) {
			continue
		}
		for _, in := range b.Instrs {
			if in == at && b == atBlock {
				break
			}
			d, ok := in.(*ssa.DebugRef)
			if !ok {
				continue
			}
			id, ok := d.Expr.(*ast.Ident)
			if !ok || isParam[id.Name] || id.Name == "_" {
				continue
			}
			t := d.X.Type()
			if d.IsAddr {
				if pt, ok := t.Underlying().(*types.Pointer); ok {
					t = pt.Elem()
				}
			}
			if types.Identical(t, want) {
				names[id.Name] = true
			}
		}
	}
	if len(names) != 1 {
		return nil
	}
	for n := range names {
		if v := fr.localNamed(n, at, st); v != nil {
			fr.u.warn("clause local %q not found; bound by type to %q (renamed?)", name, n)
			fr.u.rebinds = append(fr.u.rebinds, fmt.Sprintf("%s: local %s -> %s", funcName(fr.fn), name, n))
			return v
		}
	}
	return nil
}

// projectField selects field f of a struct value, or of the struct a pointer value points to.
func (fr *frame) projectField(v *Val, t types.Type, f string, st *State) (*Val, types.Type) {
	u := fr.u
	if pt, ok := t.Underlying().(*types.Pointer); ok {
		stt, ok := pt.Elem().Underlying().(*types.Struct)
		if !ok {
			return nil, nil
		}
		for i := 0; i < stt.NumFields(); i++ {
			if stt.Field(i).Name() == f {
				lv := fr.ptrLV(v, t).extendField(i, pt.Elem(), stt.Field(i).Type())
				return &Val{t: u.read(st, lv)}, stt.Field(i).Type()
			}
		}
		return nil, nil
	}
	if stt, ok := t.Underlying().(*types.Struct); ok {
		for i := 0; i < stt.NumFields(); i++ {
			if stt.Field(i).Name() == f {
				return &Val{t: fmt.Sprintf("(%s %s)", u.sorts.fieldSel(t, i), fr.valTerm(v, st))}, stt.Field(i).Type()
			}
		}
	}
	return nil, nil
}

func (fr *frame) localNamedT(name string, at ssa.Instruction, st *State) (*Val, types.Type) {
	// `name?`: the latest definition of a local that need not dominate the anchor (declared in a branch taken earlier);
	// `reached:name`: whether that definition was executed on the path reaching the anchor (the reach literal of its block)
	opt, wantReach := false, false
	if strings.HasPrefix(name, "reached:") {
		name, opt, wantReach = strings.TrimPrefix(name, "reached:"), true, true
	}
	if strings.HasSuffix(name, "?") {
		name, opt = strings.TrimSuffix(name, "?"), true
	}
	type cand struct {
		b      *ssa.BasicBlock
		idx    int
		v      ssa.Value
		isAddr bool
	}
	var cands []cand
	atBlock := at.Block()
	// blocks from which the anchor's block can be reached (forward edges only): a definition elsewhere is not the
	// variable's value at the anchor, whatever its position in the source
	reaches := map[*ssa.BasicBlock]bool{atBlock: true}
	if opt {
		work := []*ssa.BasicBlock{atBlock}
		for len(work) > 0 {
			b := work[len(work)-1]
			work = work[:len(work)-1]
			for _, p := range b.Preds {
				if !reaches[p] && !b.Dominates(p) {
					reaches[p] = true
					work = append(work, p)
				}
			}
		}
	}
	anyDef := false
	for _, b := range fr.fn.Blocks {
		if !(b == atBlock || b.Dominates(atBlock)) && !opt {
			continue
		}
		if opt && !reaches[b] {
			for _, in := range b.Instrs {
				if d, ok := in.(*ssa.DebugRef); ok {
					if id, ok := d.Expr.(*ast.Ident); ok && id.Name == name {
						anyDef = true
					}
				}
			}
			continue
		}
		for i, in := range b.Instrs {
			if in == at && b == atBlock {
				break
			}
			switch x := in.(type) {
			case *ssa.DebugRef:
				id, ok := x.Expr.(*ast.Ident)
				if !ok || id.Name != name {
					continue
				}
				if _, seen := fr.vals[x.X]; !seen {
					_, isConst := x.X.(*ssa.Const)
					_, isGlobal := x.X.(*ssa.Global)
					if !isConst && !isGlobal {
						continue
					}
				}
				cands = append(cands, cand{b, i, x.X, x.IsAddr})
			case *ssa.Phi:
				if x.Comment == name {
					if _, seen := fr.vals[x]; seen {
						cands = append(cands, cand{b, i, x, false})
					}
				}
			}
		}
	}
	if len(cands) == 0 {
		if wantReach && anyDef {
			return &Val{t: "false"}, types.Typ[types.Bool] // defined only where the anchor cannot be reached from
		}
		return nil, nil
	}
	best := cands[0]
	if opt {
		// latest in source order
		posOf := func(c cand) token.Pos { return c.b.Instrs[c.idx].Pos() }
		for _, c := range cands[1:] {
			if posOf(c) > posOf(best) || (posOf(c) == posOf(best) && (c.b.Index > best.b.Index || (c.b == best.b && c.idx > best.idx))) {
				best = c
			}
		}
		if wantReach {
			// where the value was *defined* decides (go/ssa also records every later use of the variable: a use inside a
			// branch must not turn "defined on this path" into "that branch was taken")
			db := best.b
			switch dv := best.v.(type) {
			case ssa.Instruction:
				if dv.Block() != nil && dv.Parent() == fr.fn {
					db = dv.Block()
				}
			case *ssa.Parameter, *ssa.Const, *ssa.Global, *ssa.FreeVar:
				return &Val{t: "true"}, types.Typ[types.Bool]
			}
			if db == atBlock || db.Dominates(atBlock) {
				return &Val{t: "true"}, types.Typ[types.Bool]
			}
			if r, ok := fr.reach[db.Index]; ok && r != "" {
				return &Val{t: r}, types.Typ[types.Bool]
			}
			return nil, nil
		}
	} else {
		for _, c := range cands[1:] {
			if c.b == best.b {
				if c.idx > best.idx {
					best = c
				}
			} else if best.b.Dominates(c.b) {
				best = c
			}
		}
	}
	v := fr.valOf(best.v)
	if best.isAddr {
		lv := fr.ptrLV(v, best.v.Type())
		return &Val{t: fr.u.read(st, lv)}, best.v.Type().Underlying().(*types.Pointer).Elem()
	}
	return v, best.v.Type()
}

func (fr *frame) retsByPos() []retInfo {
	rs := append([]retInfo{}, fr.rets...)
	sort.SliceStable(rs, func(i, j int) bool { return rs[i].tpos < rs[j].tpos })
	return rs
}

// emitAxioms asserts the universally quantified rules that define derived ghost predicates.
func (u *Unit) emitAxioms(fr *frame, st *State) {
	for _, ax := range u.eng.axiomDefs {
		// Horn rules over a package's ghost vocabulary serve the proofs of that package's own units
		if ax.Fn.Pkg != nil && fr.fn.Pkg != nil && ax.Fn.Pkg != fr.fn.Pkg {
			continue
		}
		var args []*Val
		var binders []string
		for _, p := range ax.Fn.Params {
			n := u.fresh("ax." + p.Name())
			binders = append(binders, fmt.Sprintf("(%s %s)", n, u.sorts.sortOf(p.Type())))
			args = append(args, &Val{t: n})
		}
		nf := u.newFrame(ax.Fn, 1, true, "")
		nf.binders = 1
		var lets [][2]string
		nf.lets = &lets
		res, _, _ := nf.run(args, nil, st, "true")
		if len(res) == 0 {
			continue
		}
		body := res[0].t
		for i := len(lets) - 1; i >= 0; i-- {
			body = fmt.Sprintf("(let ((%s %s)) %s)", lets[i][0], lets[i][1], body)
		}
		if len(binders) == 0 {
			u.assume("true", body)
		} else {
			u.assume("true", fmt.Sprintf("(forall (%s) %s)", strings.Join(binders, " "), body))
		}
		u.axiomsUsed = append(u.axiomsUsed, ax.Name)
	}
}


// storeSiteAsserts: assert@store <field> #n ... anchored at the n-th (source order) store to a field of that name.
func (fr *frame) storeSiteAsserts(x *ssa.Store, st *State, reach string) {
	root := fr.anchorRoot()
	if root == nil {
		return
	}
	fieldOf := func(s *ssa.Store) string {
		fa, ok := s.Addr.(*ssa.FieldAddr)
		if !ok {
			return ""
		}
		stt, ok := fa.X.Type().Underlying().(*types.Pointer).Elem().Underlying().(*types.Struct)
		if !ok {
			return ""
		}
		return stt.Field(fa.Field).Name()
	}
	name := fieldOf(x)
	if name == "" {
		return
	}
	sitesIn := func(fn *ssa.Function) []*ssa.Store {
		var sites []*ssa.Store
		for _, b := range fn.Blocks {
			for _, in := range b.Instrs {
				if s, ok := in.(*ssa.Store); ok && fieldOf(s) == name {
					sites = append(sites, s)
				}
			}
		}
		sort.Slice(sites, func(i, j int) bool { return sites[i].Pos() < sites[j].Pos() })
		return sites
	}
	for _, cl := range root.contract.Asserts {
		if !cl.AtStore || cl.AtReturn || cl.Callee != name || cl.Fn == nil {
			continue
		}
		if fr != root && len(sitesIn(root.fn)) > 0 {
			continue // the unit's own body has the anchor
		}
		if cl.Ordinal > 0 {
			sites := sitesIn(fr.fn)
			if cl.Ordinal > len(sites) || sites[cl.Ordinal-1] != x {
				continue
			}
		}
		sargs := append([]*Val{}, root.params...)
		need := len(cl.Fn.Params) - len(sargs) - len(cl.VarNames)
		if need == 1 {
			sargs = append(sargs, fr.valOf(x.Val))
		} else if need != 0 {
			fr.u.eng.stale = append(fr.u.eng.stale, "assert@store "+cl.Label+": parameter mismatch")
			continue
		}
		ok := true
		for j, ln := range cl.VarLocal {
			lv := fr.anchorLocal(ln, x, st)
			if lv == nil && len(sargs)+(len(cl.VarLocal)-j) == len(cl.Fn.Params) {
				lv = fr.localByType(ln, cl.Fn.Params[len(sargs)].Type(), x, st)
			}
			if lv == nil {
				if !strings.HasSuffix(ln, "?") && !strings.HasPrefix(ln, "reached:") {
					fr.u.eng.stale = append(fr.u.eng.stale, "assert@store "+cl.Label+": local "+ln+" not found")
				}
				ok = false
				break
			}
			sargs = append(sargs, lv)
		}
		if !ok {
			continue
		}
		t := fr.evalSpec(cl, sargs, st, nil)
		fr.u.oblige(root.obName("assert", cl.Label), "assert", cl.Tags, reach, t, fr.pos(x.Pos()), cl.Text)
		fr.u.assertsSeen[cl.Label] = true
		if fr != root {
			fr.u.rebinds = append(fr.u.rebinds, fmt.Sprintf("%s: assertion %s anchored at the store to %s in %s (inlined: no contract of its own)", funcName(root.fn), cl.Label, name, funcName(fr.fn)))
		}
	}
}


// mapUpdateAsserts: assert@store <name>[] #n (k K, v V, prev V) uses ... label: expr -- anchored at the n-th update
// `m[k] = v` (source order) of a map called <name>: a field `x.name`, a package variable `name`, a local variable
// `name`, or a map of the named type `name` - so that the anchor survives the map being built in a local first.
// `prev` is what the map held under k before the update (the zero value if nothing).
func (fr *frame) mapUpdateAsserts(x *ssa.MapUpdate, st *State, reach string) {
	root := fr.anchorRoot()
	if root == nil {
		return
	}
	namesOf := func(f *frame, m *ssa.MapUpdate) []string {
		var ns []string
		if nt, ok := m.Map.Type().(*types.Named); ok {
			ns = append(ns, nt.Obj().Name()+"[]")
		}
		switch v := m.Map.(type) {
		case *ssa.UnOp:
			if fa, ok := v.X.(*ssa.FieldAddr); ok {
				if stt, ok := fa.X.Type().Underlying().(*types.Pointer).Elem().Underlying().(*types.Struct); ok {
					ns = append(ns, stt.Field(fa.Field).Name()+"[]")
				}
			}
			if g, ok := v.X.(*ssa.Global); ok {
				ns = append(ns, g.Name()+"[]")
			}
			if a, ok := v.X.(*ssa.Alloc); ok && a.Comment != "" {
				ns = append(ns, a.Comment+"[]")
			}
		}
		// a source-level local that names this map value
		for _, b := range f.fn.Blocks {
			for _, in := range b.Instrs {
				if d, ok := in.(*ssa.DebugRef); ok && d.X == m.Map && !d.IsAddr {
					if id, ok := d.Expr.(*ast.Ident); ok {
						ns = append(ns, id.Name+"[]")
					}
				}
			}
		}
		return ns
	}
	has := func(ns []string, n string) bool {
		for _, x := range ns {
			if x == n {
				return true
			}
		}
		return false
	}
	sitesIn := func(f *frame, name string) []*ssa.MapUpdate {
		var sites []*ssa.MapUpdate
		for _, b := range f.fn.Blocks {
			for _, in := range b.Instrs {
				if m, ok := in.(*ssa.MapUpdate); ok && has(namesOf(f, m), name) {
					sites = append(sites, m)
				}
			}
		}
		sort.Slice(sites, func(i, j int) bool { return sites[i].Pos() < sites[j].Pos() })
		return sites
	}
	names := namesOf(fr, x)
	if len(names) == 0 {
		return
	}
	for _, cl := range root.contract.Asserts {
		if !cl.AtStore || cl.AtReturn || !has(names, cl.Callee) || cl.Fn == nil {
			continue
		}
		if fr != root && len(sitesIn(root, cl.Callee)) > 0 {
			continue // the unit's own body has the anchor
		}
		if cl.Ordinal > 0 {
			sites := sitesIn(fr, cl.Callee)
			if cl.Ordinal > len(sites) || sites[cl.Ordinal-1] != x {
				continue
			}
		}
		sargs := append([]*Val{}, root.params...)
		need := len(cl.Fn.Params) - len(sargs) - len(cl.VarNames)
		if need < 0 || need > 3 {
			fr.u.eng.stale = append(fr.u.eng.stale, "assert@store "+cl.Label+": parameter mismatch")
			continue
		}
		if need >= 1 {
			sargs = append(sargs, fr.valOf(x.Key))
		}
		if need >= 2 {
			sargs = append(sargs, fr.valOf(x.Value))
		}
		if need == 3 {
			u := fr.u
			mt := x.Map.Type().Underlying().(*types.Map)
			mv := fr.valOf(x.Map)
			pn, ps, vn, vs := fr.mapHeaps(mt)
			k := fr.valTerm(fr.valOf(x.Key), st)
			hp := u.heapGet(st, pn, ps)
			hv := u.heapGet(st, vn, vs)
			present := fr.defSort("present", "Bool", fmt.Sprintf("(and (not (= %s 0)) (select (select %s %s) %s))", mv.t, hp, mv.t, k))
			prev := fr.def("mprev", mt.Elem(), ite(present, fmt.Sprintf("(select (select %s %s) %s)", hv, mv.t, k), u.sorts.zero(mt.Elem())))
			fr.assumeWF(mt.Elem(), prev, st, reach)
			sargs = append(sargs, &Val{t: prev})
		}
		ok := true
		for j, ln := range cl.VarLocal {
			lv := fr.anchorLocal(ln, x, st)
			if lv == nil && len(sargs)+(len(cl.VarLocal)-j) == len(cl.Fn.Params) {
				lv = fr.localByType(ln, cl.Fn.Params[len(sargs)].Type(), x, st)
			}
			if lv == nil {
				if !strings.HasSuffix(ln, "?") && !strings.HasPrefix(ln, "reached:") {
					fr.u.eng.stale = append(fr.u.eng.stale, "assert@store "+cl.Label+": local "+ln+" not found")
				}
				ok = false
				break
			}
			sargs = append(sargs, lv)
		}
		if !ok {
			continue
		}
		t := fr.evalSpec(cl, sargs, st, nil)
		fr.u.oblige(root.obName("assert", cl.Label), "assert", cl.Tags, reach, t, fr.pos(x.Pos()), cl.Text)
		fr.u.assertsSeen[cl.Label] = true
	}
}

// returnSiteAsserts: assert@return #n uses ... label: expr  -- anchored at the n-th return statement.
func (fr *frame) returnSiteAsserts(x *ssa.Return, st *State, reach string) {
	if fr.depth != 0 || fr.contract == nil || fr.pure {
		return
	}
	for _, cl := range fr.contract.Asserts {
		if !cl.AtReturn || cl.Fn == nil {
			continue
		}
		if cl.Ordinal > 0 {
			var sites []*ssa.Return
			for _, b := range fr.fn.Blocks {
				for _, in := range b.Instrs {
					if r, ok := in.(*ssa.Return); ok {
						sites = append(sites, r)
					}
				}
			}
			sort.Slice(sites, func(i, j int) bool { return sites[i].Pos() < sites[j].Pos() })
			if cl.Ordinal > len(sites) || sites[cl.Ordinal-1] != x {
				continue
			}
		} else if cl.Ordinal == -1 {
			var last *ssa.Return
			for _, b := range fr.fn.Blocks {
				for _, in := range b.Instrs {
					if r, ok := in.(*ssa.Return); ok && (last == nil || r.Pos() > last.Pos()) {
						last = r
					}
				}
			}
			if last != x {
				continue
			}
		}
		sargs := append([]*Val{}, fr.params...)
		// extra parameters `(r0 T0, r1 T1)` name the values being returned here
		if need := len(cl.Fn.Params) - len(sargs) - len(cl.VarNames); need > 0 && need <= len(x.Results) {
			for i := 0; i < need; i++ {
				sargs = append(sargs, fr.valOf(x.Results[i]))
			}
		}
		ok := true
		for j, ln := range cl.VarLocal {
			lv := fr.localNamed(ln, x, st)
			if lv == nil && len(sargs)+(len(cl.VarLocal)-j) == len(cl.Fn.Params) {
				lv = fr.localByType(ln, cl.Fn.Params[len(sargs)].Type(), x, st)
			}
			if lv == nil {
				if !strings.HasSuffix(ln, "?") && !strings.HasPrefix(ln, "reached:") {
					fr.u.eng.stale = append(fr.u.eng.stale, "assert@return "+cl.Label+": local "+ln+" not found")
				}
				ok = false
				break
			}
			sargs = append(sargs, lv)
		}
		if !ok || len(sargs) != len(cl.Fn.Params) {
			continue
		}
		t := fr.evalSpec(cl, sargs, st, nil)
		fr.u.oblige(fr.obName("assert", cl.Label), "assert", cl.Tags, reach, t, fr.pos(x.Pos()), cl.Text)
		fr.u.assertsSeen[cl.Label] = true
	}
}

// servesRequest: the function takes the request or the response writer - it is one of the things that run once per
// request, on as many goroutines as there are requests.
func servesRequest(fn *ssa.Function) bool {
	for _, p := range fn.Params {
		t := p.Type()
		if pt, ok := t.(*types.Pointer); ok {
			t = pt.Elem()
		}
		if n, ok := t.(*types.Named); ok && n.Obj().Pkg() != nil && n.Obj().Pkg().Path() == "net/http" &&
			(n.Obj().Name() == "ResponseWriter" || n.Obj().Name() == "Request") {
			return true
		}
	}
	return false
}

// anchorWasThere: the recorded tree had an obligation of that name (for any property).
func (e *Engine) anchorWasThere(name string) bool {
	if e.allBaseline == nil {
		e.allBaseline = map[string]bool{}
		for _, m := range loadBaseline() {
			for n := range m {
				e.allBaseline[n] = true
			}
		}
	}
	return e.allBaseline[name]
}

package main

import (
	"encoding/json"
	"fmt"
	"go/types"
	"os"
	"os/exec"
	"path/filepath"
	"regexp"
	"strconv"
	"strings"
	"time"
)

// Replay: turn the solver's counterexample for a failed obligation into a concrete run of the real
// function. The model is read back in rounds (parameters first, then the heap objects and slice
// elements they reach), converted into a JSON value graph, and an in-package test injected with
// `go test -overlay` builds those values by reflection and calls the real function. Reproduced means:
// the real code panicked (safety obligations) or the executable postcondition evaluated to false.

type rnode struct {
	Kind   string            `json:"kind"` // nil, ptr, struct, slice, string, int, bool, time, float, unsupported
	Str    string            `json:"str,omitempty"`
	Int    int64             `json:"int,omitempty"`
	Bool   bool              `json:"bool,omitempty"`
	To     *rnode            `json:"to,omitempty"`
	Fields map[string]*rnode `json:"fields,omitempty"`
	Elems  []*rnode          `json:"elems,omitempty"`
	Note   string            `json:"note,omitempty"`
}

// ---- s-expressions -------------------------------------------------------------------------

type sexp struct {
	atom string
	list []*sexp
	isL  bool
}

func parseSexps(s string) []*sexp {
	var out []*sexp
	i := 0
	var parse func() *sexp
	skip := func() {
		for i < len(s) && (s[i] == ' ' || s[i] == '\n' || s[i] == '\t' || s[i] == '\r') {
			i++
		}
	}
	parse = func() *sexp {
		skip()
		if i >= len(s) {
			return nil
		}
		switch s[i] {
		case '(':
			i++
			n := &sexp{isL: true}
			for {
				skip()
				if i >= len(s) {
					return n
				}
				if s[i] == ')' {
					i++
					return n
				}
				c := parse()
				if c == nil {
					return n
				}
				n.list = append(n.list, c)
			}
		case '"':
			j := i + 1
			for j < len(s) {
				if s[j] == '"' {
					if j+1 < len(s) && s[j+1] == '"' {
						j += 2
						continue
					}
					break
				}
				j++
			}
			a := s[i:min(j+1, len(s))]
			i = j + 1
			return &sexp{atom: a}
		case '|':
			j := strings.IndexByte(s[i+1:], '|')
			if j < 0 {
				i = len(s)
				return nil
			}
			a := s[i : i+j+2]
			i += j + 2
			return &sexp{atom: a}
		}
		j := i
		for j < len(s) && !strings.ContainsRune(" \n\t\r()", rune(s[j])) {
			j++
		}
		a := s[i:j]
		i = j
		return &sexp{atom: a}
	}
	for {
		skip()
		if i >= len(s) {
			break
		}
		if s[i] == ')' {
			i++
			continue
		}
		n := parse()
		if n == nil {
			break
		}
		out = append(out, n)
	}
	return out
}

func (x *sexp) String() string {
	if !x.isL {
		return x.atom
	}
	var ps []string
	for _, c := range x.list {
		ps = append(ps, c.String())
	}
	return "(" + strings.Join(ps, " ") + ")"
}

func sexpInt(x *sexp) (int64, bool) {
	if x == nil {
		return 0, false
	}
	if !x.isL {
		v, err := strconv.ParseInt(x.atom, 10, 64)
		return v, err == nil
	}
	if len(x.list) == 2 && x.list[0].atom == "-" {
		v, ok := sexpInt(x.list[1])
		return -v, ok
	}
	return 0, false
}

func smtUnescape(lit string) string {
	if len(lit) >= 2 && lit[0] == '"' {
		lit = lit[1 : len(lit)-1]
	}
	lit = strings.Replace(lit, `""`, `"`, -1)
	re := regexp.MustCompile(`\\u\{([0-9a-fA-F]+)\}`)
	return re.ReplaceAllStringFunc(lit, func(m string) string {
		h := re.FindStringSubmatch(m)[1]
		v, _ := strconv.ParseInt(h, 16, 32)
		return string(rune(v))
	})
}

// ---- reading the model back ------------------------------------------------------------------

type modelReader struct {
	u       *Unit
	ob      *Obligation
	cache   map[string]*sexp
	calls   int
	failures int
	want    []string
	deadline time.Time
	extra   []string // additional constraints (model minimisation: short slices)
	prefer  []string // constraints that would make the model constructible (nil funcs / interfaces)
	tooLong []string // symbolic slice terms whose model length exceeded the replay bound
}

const replaySliceBound = 3

// eval asks the solver for the values of the given closed terms under the model of the (constrained) query.
func (m *modelReader) eval(terms []string) {
	var need []string
	for _, t := range terms {
		if _, ok := m.cache[t]; !ok {
			need = append(need, t)
		}
	}
	if len(need) == 0 || m.calls > 120 || (!m.deadline.IsZero() && time.Now().After(m.deadline)) {
		return
	}
	m.calls++
	q := m.u.queryV(m.ob, false, false, true)
	q = strings.Replace(q, "(check-sat)\n", strings.Join(m.extra, "\n")+"\n(check-sat)\n", 1)
	q = "(set-option :produce-models true)\n" + q + "(get-value (" + strings.Join(need, " ") + "))\n"
	r := runSolver(z3new, q, 5*time.Second)
	if r.result != "sat" {
		m.failures++
		if m.failures >= 2 {
			m.deadline = time.Now() // the solver cannot re-produce models for this query quickly: give up
		}
		return
	}
	i := strings.Index(r.out, "sat")
	xs := parseSexps(r.out[i+3:])
	if len(xs) == 0 || !xs[0].isL {
		return
	}
	for k, pair := range xs[0].list {
		if k < len(need) && pair.isL && len(pair.list) == 2 {
			m.cache[need[k]] = pair.list[1]
		}
	}
}

// value returns the cached model value of a term; unknown terms are queued and fetched level by level.
func (m *modelReader) value(term string) *sexp {
	if v, ok := m.cache[term]; ok {
		return v
	}
	m.want = append(m.want, term)
	return nil
}

// fetch evaluates all queued terms in one solver call; false when nothing was pending.
func (m *modelReader) fetch() bool {
	if len(m.want) == 0 {
		return false
	}
	w := m.want
	m.want = nil
	m.eval(w)
	for _, t := range w {
		if _, ok := m.cache[t]; !ok {
			m.cache[t] = nil // unavailable: do not ask again
		}
	}
	return true
}

// node reads the value designated by the closed symbolic term sym (of Go type t) from the model.
func (m *modelReader) node(t types.Type, sym string, depth int, seen map[string]bool) *rnode {
	s := m.u.sorts
	v := m.value(sym)
	if v == nil {
		return &rnode{Kind: "unsupported", Note: "no model value"}
	}
	if isTime(t) {
		n, _ := sexpInt(v)
		return &rnode{Kind: "time", Int: n}
	}
	switch u := t.Underlying().(type) {
	case *types.Basic:
		switch {
		case u.Info()&types.IsBoolean != 0:
			return &rnode{Kind: "bool", Bool: v.atom == "true"}
		case u.Info()&types.IsString != 0:
			return &rnode{Kind: "string", Str: smtUnescape(v.atom)}
		case u.Info()&types.IsInteger != 0:
			n, _ := sexpInt(v)
			return &rnode{Kind: "int", Int: n}
		}
		return &rnode{Kind: "unsupported", Note: "basic " + u.Name()}
	case *types.Pointer:
		ref, _ := sexpInt(v)
		if ref == 0 {
			return &rnode{Kind: "nil"}
		}
		key := fmt.Sprintf("%s#%d", s.typeKey(u.Elem()), ref)
		if depth > 6 || seen[key] {
			return &rnode{Kind: "ptr", To: &rnode{Kind: "unsupported", Note: "depth/cycle: zero value used"}}
		}
		seen[key] = true
		defer delete(seen, key)
		h, ok := m.u.initHeap["H:"+s.typeKey(u.Elem())]
		if !ok {
			return &rnode{Kind: "ptr", To: &rnode{Kind: "unsupported", Note: "object never read: zero value used"}}
		}
		return &rnode{Kind: "ptr", To: m.node(u.Elem(), fmt.Sprintf("(select %s %s)", h, sym), depth+1, seen)}
	case *types.Struct:
		if nt, ok := t.(*types.Named); ok && nt.Obj().Pkg() != nil && nt.Obj().Pkg().Path() == "net/url" && nt.Obj().Name() == "URL" {
			// url.URL{Opaque: s} realises String() == s, the only thing the contracts observe of a URL
			f := q("ext:(*net/url.URL).String")
			if m.u.sorts.ufs[f] {
				if sv := m.value(fmt.Sprintf("(%s %s)", f, sym)); sv != nil && !sv.isL {
					return &rnode{Kind: "struct", Fields: map[string]*rnode{"Opaque": {Kind: "string", Str: smtUnescape(sv.atom)}}}
				}
			}
		}
		n := &rnode{Kind: "struct", Fields: map[string]*rnode{}}
		for i := 0; i < u.NumFields(); i++ {
			n.Fields[u.Field(i).Name()] = m.node(u.Field(i).Type(), fmt.Sprintf("(%s %s)", s.fieldSel(t, i), sym), depth+1, seen)
		}
		return n
	case *types.Slice:
		if !v.isL || len(v.list) != 5 {
			return &rnode{Kind: "unsupported", Note: "slice value " + v.String()}
		}
		arr, _ := sexpInt(v.list[1])
		ln, _ := sexpInt(v.list[3])
		if arr == 0 {
			return &rnode{Kind: "nil"}
		}
		n := &rnode{Kind: "slice"}
		if ln > replaySliceBound {
			m.tooLong = append(m.tooLong, sym)
			n.Note = fmt.Sprintf("model length %d exceeds the replay bound", ln)
			ln = replaySliceBound
		}
		h, ok := m.u.initHeap["E:"+s.typeKey(u.Elem())]
		for i := int64(0); i < ln; i++ {
			if ok {
				n.Elems = append(n.Elems, m.node(u.Elem(), fmt.Sprintf("(select (select %s (s-arr %s)) (+ (s-off %s) %d))", h, sym, sym, i), depth+1, seen))
			} else {
				n.Elems = append(n.Elems, &rnode{Kind: "unsupported", Note: "elements never read: zero value used"})
			}
		}
		return n
	case *types.Interface:
		if v.isL && len(v.list) == 3 {
			if tag, _ := sexpInt(v.list[1]); tag == 0 {
				return &rnode{Kind: "nil"}
			}
		}
		m.prefer = append(m.prefer, fmt.Sprintf("(assert (= (i-tag %s) 0))", sym))
		return &rnode{Kind: "unsupported", Note: "non-nil interface value cannot be constructed from a model: left nil"}
	case *types.Signature:
		if n, _ := sexpInt(v); n != 0 {
			m.prefer = append(m.prefer, fmt.Sprintf("(assert (= %s 0))", sym))
			return &rnode{Kind: "unsupported", Note: "non-nil function value cannot be constructed from a model: left nil"}
		}
		return &rnode{Kind: "nil"}
	}
	return &rnode{Kind: "nil", Note: "type " + t.String() + " left at zero value"}
}

// ---- the replay test -----------------------------------------------------------------------------

const replayHelper = `
type rnode struct {
	Kind   string            ` + "`json:\"kind\"`" + `
	Str    string            ` + "`json:\"str\"`" + `
	Int    int64             ` + "`json:\"int\"`" + `
	Bool   bool              ` + "`json:\"bool\"`" + `
	To     *rnode            ` + "`json:\"to\"`" + `
	Fields map[string]*rnode ` + "`json:\"fields\"`" + `
	Elems  []*rnode          ` + "`json:\"elems\"`" + `
}

func govcBuild(t reflect.Type, n *rnode) reflect.Value {
	v := reflect.New(t).Elem()
	if n == nil {
		return v
	}
	if t == reflect.TypeOf(time.Time{}) || (t.Kind() == reflect.Struct && t.ConvertibleTo(reflect.TypeOf(time.Time{})) && n.Kind == "time") {
		if n.Kind == "time" {
			tv := reflect.ValueOf(time.Unix(0, n.Int).UTC())
			if n.Int == 0 {
				tv = reflect.ValueOf(time.Time{})
			}
			return tv.Convert(t)
		}
		return v
	}
	switch n.Kind {
	case "nil", "unsupported":
		return v
	case "bool":
		v.SetBool(n.Bool)
	case "string":
		v.SetString(n.Str)
	case "int":
		switch t.Kind() {
		case reflect.Int, reflect.Int8, reflect.Int16, reflect.Int32, reflect.Int64:
			v.SetInt(n.Int)
		case reflect.Uint, reflect.Uint8, reflect.Uint16, reflect.Uint32, reflect.Uint64, reflect.Uintptr:
			v.SetUint(uint64(n.Int))
		}
	case "ptr":
		if t.Kind() != reflect.Ptr {
			return v
		}
		p := reflect.New(t.Elem())
		p.Elem().Set(govcBuild(t.Elem(), n.To))
		v.Set(p)
	case "struct":
		if t.Kind() != reflect.Struct {
			return v
		}
		for i := 0; i < t.NumField(); i++ {
			fn, ok := n.Fields[t.Field(i).Name]
			if !ok {
				continue
			}
			fv := v.Field(i)
			fv = reflect.NewAt(fv.Type(), unsafe.Pointer(fv.UnsafeAddr())).Elem()
			fv.Set(govcBuild(t.Field(i).Type, fn))
		}
	case "slice":
		if t.Kind() != reflect.Slice {
			return v
		}
		s := reflect.MakeSlice(t, len(n.Elems), len(n.Elems))
		for i, e := range n.Elems {
			s.Index(i).Set(govcBuild(t.Elem(), e))
		}
		v.Set(s)
	}
	return v
}
`

type replayFile struct {
	Property   string            `json:"property"`
	Obligation string            `json:"obligation"`
	Kind       string            `json:"kind"`
	Function   string            `json:"function"`
	Position   string            `json:"position"`
	Clause     string            `json:"clause"`
	Solver     string            `json:"solver"`
	Result     string            `json:"result"`
	SolverOut  string            `json:"solver_output"`
	PkgDir     string            `json:"package_dir"`
	CallExpr   string            `json:"call_expr"`
	Inputs     map[string]*rnode `json:"inputs,omitempty"`
	ParamOrder []string          `json:"param_order,omitempty"`
	Globals    map[string]*rnode `json:"globals,omitempty"`
	SpecFunc   string            `json:"spec_func,omitempty"`
	SpecSrc    string            `json:"spec_source,omitempty"` // executable form of the package's specification file
	Outcome    string            `json:"outcome,omitempty"`
	Confirmed  bool              `json:"confirmed"`
	ExternPre  bool              `json:"extern_precondition,omitempty"`
	TestOutput string            `json:"test_output,omitempty"`
	Note       string            `json:"note,omitempty"`
}

// goCallExpr returns the in-package expression denoting the function (method expression for methods).
func goCallExpr(u *Unit) (pkgDir, expr string, ok bool) {
	fn := u.fn
	if fn.Pkg == nil || fn.Parent() != nil {
		return "", "", false
	}
	path := fn.Pkg.Pkg.Path()
	pkgDir = strings.TrimPrefix(strings.TrimPrefix(path, modPath), "/")
	if recv := fn.Signature.Recv(); recv != nil {
		rt := recv.Type()
		if p, isP := rt.(*types.Pointer); isP {
			if n, isN := p.Elem().(*types.Named); isN {
				return pkgDir, "(*" + n.Obj().Name() + ")." + fn.Name(), true
			}
			return "", "", false
		}
		if n, isN := rt.(*types.Named); isN {
			return pkgDir, n.Obj().Name() + "." + fn.Name(), true
		}
		return "", "", false
	}
	return pkgDir, fn.Name(), true
}

func replayObligation(e *Engine, prop string, ob *Obligation, path string) bool {
	rf := &replayFile{Property: prop, Obligation: ob.Name, Kind: ob.Kind, Function: funcName(ob.Unit.fn), Position: ob.Pos,
		Clause: ob.Clause, Solver: ob.Solver, Result: ob.Result, SolverOut: ob.Model}
	defer func() {
		out, _ := json.MarshalIndent(rf, "", " ")
		os.WriteFile(path, append(out, '\n'), 0o644)
	}()
	if ob.Result != "sat" {
		rf.Note = "the solvers did not produce a model (" + ob.Result + "): no input to replay"
		return false
	}
	u := ob.Unit
	pkgDir, expr, ok := goCallExpr(u)
	if !ok {
		rf.Note = "function cannot be called from a generated test (closure or unnamed receiver)"
		return false
	}
	rf.PkgDir, rf.CallExpr = pkgDir, expr
	if ob.Kind == "pre" {
		if i := strings.Index(ob.Name, "#pre:"); i >= 0 {
			callee := ob.Name[i+5:]
			if j := strings.LastIndex(callee, "."); j > 0 {
				callee = callee[:j]
			}
			_, rf.ExternPre = e.externs[callee]
			if _, isRepo := e.contracts[callee]; isRepo {
				rf.ExternPre = false
			}
		}
	}
	// read the model; if it uses slices longer than the replay bound, constrain them and ask again (minimisation)
	mr := &modelReader{u: u, ob: ob, cache: map[string]*sexp{}, deadline: time.Now().Add(40 * time.Second)}
	for round := 0; round < 6; round++ {
		if time.Now().After(mr.deadline) {
			rf.Note = "replay budget exhausted while reading the model"
			break
		}
		mr.cache = map[string]*sexp{}
		mr.tooLong = nil
		for pass := 0; pass < 14; pass++ {
			mr.tooLong = nil
			mr.prefer = nil
			rf.Inputs = map[string]*rnode{}
			rf.ParamOrder = nil
			for i, p := range u.fn.Params {
				if i >= len(u.valueTerms) {
					break
				}
				name := fmt.Sprintf("arg%d_%s", i, p.Name())
				rf.ParamOrder = append(rf.ParamOrder, name)
				rf.Inputs[name] = mr.node(p.Type(), u.valueTerms[i], 0, map[string]bool{})
			}
			if !mr.fetch() {
				break
			}
		}
		if len(mr.tooLong) == 0 && len(mr.prefer) == 0 {
			break
		}
		var cons []string
		for _, t := range mr.tooLong {
			cons = append(cons, fmt.Sprintf("(assert (<= (s-len %s) %d))", t, replaySliceBound))
		}
		cons = append(cons, mr.prefer...)
		feasible := func(extra []string) bool {
			trial := &modelReader{u: u, ob: ob, cache: map[string]*sexp{}, extra: extra, deadline: mr.deadline}
			trial.eval([]string{"true"})
			return trial.cache["true"] != nil
		}
		all := append(append([]string{}, mr.extra...), cons...)
		if feasible(all) {
			mr.extra = all
			continue
		}
		// not all at once: keep the constraints that are individually compatible (greedy)
		kept := 0
		for _, c := range cons {
			if kept >= 8 {
				break
			}
			if trial := append(append([]string{}, mr.extra...), c); feasible(trial) {
				mr.extra = trial
				kept++
			}
		}
		if kept == 0 {
			rf.Note = "the counterexample needs values that a generated test cannot construct (long slices, function or interface values)"
			break
		}
	}
	// package variables of basic type read by the function (tolerances etc.)
	rf.Globals = map[string]*rnode{}
	for name, term := range u.initHeap {
		if !strings.HasPrefix(name, "G:") {
			continue
		}
		gp := name[2:]
		i := strings.LastIndex(gp, ".")
		if gp[:i] != u.fn.Pkg.Pkg.Path() {
			continue
		}
		obj := u.fn.Pkg.Pkg.Scope().Lookup(gp[i+1:])
		if obj == nil {
			continue
		}
		if b, isB := obj.Type().Underlying().(*types.Basic); isB && b.Info()&(types.IsInteger|types.IsString|types.IsBoolean) != 0 {
			mr.value(term)
			mr.fetch()
			rf.Globals[gp[i+1:]] = mr.node(obj.Type(), term, 0, map[string]bool{})
		}
	}
	if ob.SpecFn != "" {
		if src, ok := e.overlay[filepath.Join(repoDir, pkgDir, "zz_verif_spec.go")]; ok {
			rf.SpecFunc = ob.SpecFn
			rf.SpecSrc = executableSpec(string(src))
		}
	}
	return runReplay(rf, path)
}

// executableSpec turns the synthesised specification file into executable Go: quantifiers loop, ns() reads the
// clock value, slice-identity builtins compare headers, ghost functions panic (a clause that needs them cannot be
// evaluated on a concrete run and stays inconclusive).
func executableSpec(src string) string {
	var out []string
	sig := regexp.MustCompile(`^func ([A-Za-z0-9_]+)\((.*)\) ([A-Za-z0-9_.\[\]*]+)$`)
	for _, ln := range strings.Split(src, "\n") {
		t := strings.TrimSpace(ln)
		if strings.HasPrefix(t, "func ") && !strings.Contains(t, "{") {
			m := sig.FindStringSubmatch(t)
			name := ""
			if m != nil {
				name = m[1]
			}
			switch {
			case name == "forall":
				ln = "func forall(lo, hi int, f func(k int) bool) bool { for k := lo; k < hi; k++ { if !f(k) { return false } }; return true }"
			case name == "exists":
				ln = "func exists(lo, hi int, f func(k int) bool) bool { for k := lo; k < hi; k++ { if f(k) { return true } }; return false }"
			case name == "ns":
				ln = "func ns(t time.Time) int64 { if t.IsZero() { return 0 }; return t.UnixNano() }"
			case strings.HasPrefix(name, "same") && m != nil:
				ln = t + " { return len(a) == len(b) && (len(a) == 0 || &a[0] == &b[0]) }"
			case m != nil:
				ln = t + fmt.Sprintf(" { panic(\"govc-ghost:%s\") }", name)
			default:
				ln = t + " { panic(\"govc-ghost\") }"
			}
		}
		out = append(out, ln)
	}
	return strings.Join(out, "\n")
}

// runReplay generates the test, runs it against /repo's working tree and records the outcome.
func runReplay(rf *replayFile, path string) bool {
	dir, err := os.MkdirTemp("", "govc-replay-")
	if err != nil {
		rf.Note = err.Error()
		return false
	}
	defer os.RemoveAll(dir)
	pkgName := "saml"
	if rf.PkgDir != "" {
		pkgName = rf.PkgDir
	}
	in, _ := json.Marshal(rf.Inputs)
	gl, _ := json.Marshal(rf.Globals)
	order, _ := json.Marshal(rf.ParamOrder)
	var gset strings.Builder
	for g := range rf.Globals {
		fmt.Fprintf(&gset, "\tif n, ok := globals[%q]; ok { reflect.ValueOf(&%s).Elem().Set(govcBuild(reflect.TypeOf(%s), n)) }\n", g, g, g)
	}
	specCall := ""
	if rf.SpecFunc != "" && rf.SpecSrc != "" {
		specCall = fmt.Sprintf(`func() {
			defer func() {
				if r := recover(); r != nil {
					fmt.Printf("GOVC-REPLAY-CLAUSE inconclusive: %%v\n", r)
				}
			}()
			res := reflect.ValueOf(%s).Call(append(args, out...))
			fmt.Printf("GOVC-REPLAY-CLAUSE holds=%%v\n", res[0].Bool())
		}()`, rf.SpecFunc)
	}
	src := fmt.Sprintf(`package %s

import (
	"encoding/json"
	"fmt"
	"reflect"
	"runtime/debug"
	"testing"
	"time"
	"unsafe"
)
%s
var _ = unsafe.Pointer(nil)
var _ = time.Now

func TestGovcReplay(t *testing.T) {
	inputs := map[string]*rnode{}
	globals := map[string]*rnode{}
	var order []string
	json.Unmarshal([]byte(%q), &inputs)
	json.Unmarshal([]byte(%q), &globals)
	json.Unmarshal([]byte(%q), &order)
%s
	fn := reflect.ValueOf(%s)
	var args []reflect.Value
	for i, name := range order {
		args = append(args, govcBuild(fn.Type().In(i), inputs[name]))
	}
	func() {
		defer func() {
			if r := recover(); r != nil {
				fmt.Printf("GOVC-REPLAY-OUTCOME panic: %%v\n", r)
				fmt.Printf("GOVC-REPLAY-STACK %%s\n", debug.Stack())
			}
		}()
		out := fn.Call(args)
		var rs []string
		for _, o := range out {
			rs = append(rs, fmt.Sprintf("%%v", o.Interface()))
		}
		fmt.Printf("GOVC-REPLAY-OUTCOME returned: %%q\n", rs)
		%s
	}()
}
`, pkgName, replayHelper, string(in), string(gl), string(order), gset.String(), rf.CallExpr, specCall)
	testPath := filepath.Join(dir, "zz_govc_replay_test.go")
	os.WriteFile(testPath, []byte(src), 0o644)
	ov := map[string]map[string]string{"Replace": {filepath.Join(repoDir, rf.PkgDir, "zz_govc_replay_test.go"): testPath}}
	if rf.SpecFunc != "" && rf.SpecSrc != "" {
		specPath := filepath.Join(dir, "zz_govc_spec_test.go")
		os.WriteFile(specPath, []byte(rf.SpecSrc), 0o644)
		ov["Replace"][filepath.Join(repoDir, rf.PkgDir, "zz_govc_spec_test.go")] = specPath
	}
	ovb, _ := json.Marshal(ov)
	ovPath := filepath.Join(dir, "overlay.json")
	os.WriteFile(ovPath, ovb, 0o644)
	pkgArg := "./" + rf.PkgDir
	if rf.PkgDir == "" {
		pkgArg = "."
	}
	cmd := exec.Command("go", "test", "-overlay", ovPath, "-vet=off", "-count=1", "-v", "-timeout", "60s", "-run", "^TestGovcReplay$", pkgArg)
	cmd.Dir = repoDir
	cmd.Env = append(os.Environ(), "GOFLAGS=-mod=mod", "GOPROXY=off", "GOSUMDB=off", "GOTOOLCHAIN=local")
	outb, _ := cmd.CombinedOutput()
	out := string(outb)
	if len(out) > 4000 {
		out = out[:4000]
	}
	rf.TestOutput = out
	m := regexp.MustCompile(`GOVC-REPLAY-OUTCOME (.*)`).FindStringSubmatch(out)
	if m == nil {
		rf.Outcome = "replay test did not run to an outcome"
		return false
	}
	rf.Outcome = m[1]
	// a panic reproduces a safety obligation only if it is the panic that obligation is about
	want := map[string]string{"nil": "nil pointer dereference", "idx": "index out of range", "slice": "slice bounds out of range",
		"typeassert": "interface conversion", "div0": "divide by zero", "mapwrite": "assignment to entry in nil map", "panic": ""}
	if strings.HasPrefix(m[1], "panic:") {
		if w, ok := want[rf.Kind]; ok && strings.Contains(m[1], w) {
			rf.Confirmed = true
			return true
		}
		if rf.Kind == "pre" && rf.ExternPre {
			// precondition of a dependency that panics when violated (IV length, full blocks, nonce length ...)
			rf.Confirmed = true
			return true
		}
		rf.Note = "the real function panicked on the model's input, but not with the failure this obligation is about"
		return false
	}
	if cm := regexp.MustCompile(`GOVC-REPLAY-CLAUSE (.*)`).FindStringSubmatch(out); cm != nil {
		rf.Outcome += " | clause " + cm[1]
		if strings.Contains(cm[1], "holds=false") && rf.Kind == "ensures" {
			rf.Confirmed = true
			return true
		}
	}
	if !strings.HasPrefix(m[1], "panic:") {
		rf.Note = "the real function returned normally on the model's input and the clause could not be shown false on this run"
	}
	return false
}

// cmdReplay re-runs a stored replay file against the current working tree.
func cmdReplay(args []string) {
	if len(args) != 1 {
		fatal("usage: govc replay <file>")
	}
	data, err := os.ReadFile(args[0])
	if err != nil {
		fatal("%v", err)
	}
	rf := &replayFile{}
	if err := json.Unmarshal(data, rf); err != nil {
		fatal("%v", err)
	}
	if strings.Contains(rf.Obligation, "#dispatch:") || strings.Contains(rf.Obligation, "#receiver:") || strings.HasSuffix(rf.Obligation, "#shape") {
		// a structural obligation: decided again by go/types on the current tree
		e := setup()
		for _, dc := range e.dispatch {
			if dc.obName() == rf.Obligation {
				ok, why := dc.holds(e.L)
				if ok {
					fmt.Printf("obligation %s holds on the current tree\n", rf.Obligation)
					os.Exit(0)
				}
				fmt.Printf("obligation %s fails on the current tree: %s\n", rf.Obligation, why)
				os.Exit(1)
			}
		}
		fmt.Printf("obligation %s is no longer declared\n", rf.Obligation)
		os.Exit(2)
	}
	if rf.CallExpr == "" || rf.Inputs == nil {
		// no stored input (replay budget of the check run, or a solver answer without model): regenerate the
		// obligation from the current tree, solve it again and replay its model
		e := setup()
		fn := e.funcs[rf.Function]
		if fn == nil {
			fmt.Printf("function %s not found\n", rf.Function)
			os.Exit(2)
		}
		u := e.verifyFunc(fn)
		for _, ob := range u.obs {
			if ob.Name == rf.Obligation {
				u.solve(ob, "quick")
				fmt.Printf("obligation %s: %s\n", ob.Name, ob.Result)
				if ob.Result == "unsat" {
					fmt.Println("the obligation is discharged on the current tree: nothing to replay")
					os.Exit(0)
				}
				ok := replayObligation(e, rf.Property, ob, args[0])
				fmt.Printf("reproduced on the real code: %v (details in %s)\n", ok, args[0])
				if ok {
					os.Exit(1)
				}
				os.Exit(0)
			}
		}
		fmt.Printf("obligation %s is no longer generated\n", rf.Obligation)
		os.Exit(2)
	}
	ok := runReplay(rf, args[0])
	fmt.Printf("obligation: %s\noutcome: %s\nreproduced: %v\n", rf.Obligation, rf.Outcome, ok)
	if ok {
		os.Exit(1)
	}
}

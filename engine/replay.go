package main

// replayObligation tries to turn the solver's model into a concrete run of the real function.
// Returns true when the real code reproduced the failure.
func replayObligation(e *Engine, prop string, ob *Obligation, path string) bool {
	return false
}

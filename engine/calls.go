package main

import (
	"fmt"
	"go/token"
	"go/types"
	"os"
	"path/filepath"
	"regexp"
	"sort"
	"strings"

	"golang.org/x/tools/go/ssa"
)

const maxInlineDepth = 4

// ModSet: heap/cell name -> representative stored type. Special keys: "P:<i>" (pointee of
// parameter i, shallow), "PE:<i>" (elements of slice parameter i), "*" (anything).
type ModSet map[string]types.Type

func (u *Unit) modSort(name string, t types.Type) string {
	s := u.sorts
	switch {
	case strings.HasPrefix(name, "H:"):
		return "(Array Int " + s.sortOf(t) + ")"
	case strings.HasPrefix(name, "E:"):
		return "(Array Int (Array Int " + s.sortOf(t) + "))"
	case strings.HasPrefix(name, "MP:"):
		mt := t.Underlying().(*types.Map)
		return fmt.Sprintf("(Array Int (Array %s Bool))", s.sortOf(mt.Key()))
	case strings.HasPrefix(name, "SB:"):
		return "String"
	case name == "GH:clock":
		return "Int"
	case strings.HasPrefix(name, "MV:"):
		mt := t.Underlying().(*types.Map)
		return fmt.Sprintf("(Array Int (Array %s %s))", s.sortOf(mt.Key()), s.sortOf(mt.Elem()))
	}
	return s.sortOf(t)
}

func isRepoFunc(fn *ssa.Function) bool {
	if fn.Pkg == nil || fn.Pkg.Pkg == nil {
		return false
	}
	p := fn.Pkg.Pkg.Path()
	return p == modPath || strings.HasPrefix(p, modPath+"/")
}

// externKey is the name under which assumed contracts for a callee are filed.
func externKey(fn *ssa.Function) string {
	if o := fn.Origin(); o != nil {
		fn = o
	}
	return fn.String()
}

func (fr *frame) execCall(call *ssa.Call, c *ssa.CallCommon, st *State, reach string, pos token.Pos) *Val {
	u := fr.u
	var resT types.Type = c.Signature().Results()
	if c.Signature().Results().Len() == 1 {
		resT = c.Signature().Results().At(0).Type()
	}
	fr.crossCallState(c, reach, pos)
	var args []*Val
	if c.IsInvoke() {
		recv := fr.valOf(c.Value)
		if !fr.pure {
			u.oblige(fr.obName("nil", fr.describe(c.Value, 0)+"."+c.Method.Name()+"()"), "nil", nil, reach,
				fmt.Sprintf("(not (= (i-tag %s) 0))", recv.t), fr.pos(pos), "")
		}
		for _, a := range c.Args {
			args = append(args, fr.valOf(a))
		}
		if call != nil {
			fr.callSiteAsserts(call, append([]*Val{recv}, args...), st, reach)
		}
		if recv.boxed != nil && recv.btyp != nil {
			if m := u.eng.L.Prog.LookupMethod(recv.btyp, c.Method.Pkg(), c.Method.Name()); m != nil {
				return fr.callStatic(m, append([]*Val{recv.boxed}, args...), nil, st, reach, pos, c)
			}
		}
		if v := fr.devirtualise(c, recv, args, resT, st, reach, pos); v != nil {
			return v
		}
		return fr.callDynamic(c.Method.FullName(), append([]*Val{recv}, args...), c, resT, st, reach, pos)
	}
	for _, a := range c.Args {
		args = append(args, fr.valOf(a))
	}
	_, isBuiltin := c.Value.(*ssa.Builtin)
	if call != nil && (c.StaticCallee() != nil || isBuiltin) {
		fr.callSiteAsserts(call, args, st, reach)
	}
	switch v := c.Value.(type) {
	case *ssa.Builtin:
		return fr.callBuiltin(v, c, args, st, reach, pos)
	case *ssa.Function:
		return fr.callStatic(v, args, nil, st, reach, pos, c)
	case *ssa.MakeClosure:
		cv := fr.valOf(v)
		return fr.callStatic(cv.fn, args, cv.bindings, st, reach, pos, c)
	}
	fv := fr.valOf(c.Value)
	if call != nil {
		fr.callSiteAsserts(call, append([]*Val{fv}, args...), st, reach)
	}
	if fv.fn != nil {
		return fr.callStatic(fv.fn, args, fv.bindings, st, reach, pos, c)
	}
	if !fr.pure {
		u.oblige(fr.obName("nil", fr.describe(c.Value, 0)+"()"), "nil", nil, reach, fmt.Sprintf("(not (= %s 0))", fv.t), fr.pos(pos), "")
	}
	return fr.callDynamic(funcValueKey(fr, c.Value), append([]*Val{fv}, args...), c, resT, st, reach, pos)
}

// funcValueKey names a dynamically called function value: struct fields are keyed by type and field
// name (stable under renaming of locals), everything else by a description of the expression.
func funcValueKey(fr *frame, v ssa.Value) string {
	tn := func(t types.Type) string {
		if p, ok := t.Underlying().(*types.Pointer); ok {
			t = p.Elem()
		}
		if n, ok := t.(*types.Named); ok && n.Obj().Pkg() != nil {
			return n.Obj().Pkg().Name() + "." + n.Obj().Name()
		}
		return t.String()
	}
	switch x := v.(type) {
	case *ssa.Field:
		st := x.X.Type().Underlying().(*types.Struct)
		return "field:" + tn(x.X.Type()) + "." + st.Field(x.Field).Name()
	case *ssa.UnOp:
		if fa, ok := x.X.(*ssa.FieldAddr); ok && x.Op == token.MUL {
			st := fa.X.Type().Underlying().(*types.Pointer).Elem().Underlying().(*types.Struct)
			return "field:" + tn(fa.X.Type()) + "." + st.Field(fa.Field).Name()
		}
		if g, ok := x.X.(*ssa.Global); ok && x.Op == token.MUL {
			return "var:" + g.Pkg.Pkg.Name() + "." + g.Name()
		}
	}
	return "func:" + fr.describe(v, 0)
}

// callDynamic: the callee is not known statically (interface method, function value).
func (fr *frame) callDynamic(key string, args []*Val, c *ssa.CallCommon, resT types.Type, st *State, reach string, pos token.Pos) *Val {
	u := fr.u
	if ec := u.eng.externs[key]; ec != nil {
		return fr.applyExtern(key, ec, args, resT, st, reach, pos, c)
	}
	u.dynCalls[key] = true
	if fr.pure {
		var ats []types.Type
		ats = append(ats, c.Value.Type())
		for _, a := range c.Args {
			ats = append(ats, a.Type())
		}
		return fr.ufApply("dyn:"+key, ats, args, resT, st)
	}
	return fr.unconstrained(resT, "dyn", st, reach)
}

// ufApply applies an uninterpreted function named name to typed arguments.
func (fr *frame) ufApply(name string, argTypes []types.Type, args []*Val, resT types.Type, st *State) *Val {
	u := fr.u
	s := u.sorts
	var asorts, aterms []string
	for i, a := range args {
		aterms = append(aterms, fr.valTerm(a, st))
		asorts = append(asorts, s.sortOf(argTypes[i]))
	}
	one := func(rt types.Type, suffix string) *Val {
		f := s.uf(name+suffix, asorts, s.sortOf(rt))
		if len(aterms) == 0 {
			return &Val{t: f}
		}
		return &Val{t: fmt.Sprintf("(%s %s)", f, strings.Join(aterms, " "))}
	}
	if tup, ok := resT.(*types.Tuple); ok {
		v := &Val{}
		for i := 0; i < tup.Len(); i++ {
			v.tuple = append(v.tuple, one(tup.At(i).Type(), fmt.Sprintf("#%d", i)))
		}
		return v
	}
	return one(resT, "")
}

func sigArgTypes(sig *types.Signature) []types.Type {
	var ts []types.Type
	if sig.Recv() != nil {
		ts = append(ts, sig.Recv().Type())
	}
	for i := 0; i < sig.Params().Len(); i++ {
		ts = append(ts, sig.Params().At(i).Type())
	}
	return ts
}

func (fr *frame) callStatic(fn *ssa.Function, args []*Val, bindings []*Val, st *State, reach string, pos token.Pos, c *ssa.CallCommon) *Val {
	u := fr.u
	var resT types.Type = fn.Signature.Results()
	if fn.Signature.Results().Len() == 1 {
		resT = fn.Signature.Results().At(0).Type()
	}
	if v := fr.nativeSlices(fn, c, args, st, reach); v != nil {
		return v
	}
	if v := fr.nativeStd(fn, c, args, st, reach); v != nil {
		return v
	}
	if fn.Synthetic == "package initializer" {
		// initialisation of other packages is outside the unit
		u.abstract("package-init-call")
		return &Val{t: "0"}
	}
	// spec builtins and ghost functions (bodyless declarations in the spec overlay)
	if isRepoFunc(fn) && len(fn.Blocks) == 0 && fn.Synthetic == "" {
		if (fn.Name() == "old" || fn.Name() == "oldS") && c != nil && len(c.Args) == 1 && fr.pure && fr.preState != nil {
			// old(e): e as it was on entry of the function under contract - its defining instructions are executed
			// again over the entry state
			return fr.reevalIn(c.Args[0], fr.preState, reach)
		}
		return fr.callSpecBuiltin(fn, args, resT, st, reach)
	}
	// receiver nil-check for pointer-receiver methods on repo types is a precondition of every method (implicit)
	if isRepoFunc(fn) && !fr.pure && u.locksUsed && u.eng.mayPanic(fn, 0) && !fr.unlockDeferred() {
		// a lock taken without a deferred unlock must not be held across a call that can panic: net/http recovers the
		// panic and keeps serving, the lock stays taken for ever
		h := u.heapGet(st, "GH:locks", "(Array Int Int)")
		u.oblige(fr.obName("lock-across-panic", funcName(fn)), "lock", []string{"C19", "C20"}, reach,
			fmt.Sprintf("(= %s ((as const (Array Int Int)) 0))", h), fr.pos(pos),
			"no lock is held (other than under a deferred unlock) across a call to "+funcName(fn)+", which can panic")
	}
	if isRepoFunc(fn) {
		key := funcName(fn)
		if ct := u.eng.contracts[key]; ct != nil && !fr.pure && !(fr.depth == 0 && fr.fn == fn) {
			return fr.applyContract(fn, ct, args, resT, st, reach, pos)
		}
		if len(fn.Blocks) > 0 {
			return fr.inline(fn, args, bindings, resT, st, reach, pos)
		}
	}
	if fn.Synthetic != "" && len(fn.Blocks) > 0 {
		return fr.inline(fn, args, bindings, resT, st, reach, pos)
	}
	key := externKey(fn)
	if v, ok := fr.lockOp(key, args, st, reach, pos); ok {
		return v
	}
	if key == "fmt.Sprintf" {
		if v := fr.nativeSprintf(c, st); v != nil {
			return v
		}
	}
	if c != nil && !fr.pure {
		if name := fr.builderCallName(c); name != "" {
			return fr.builderCall(name, fn.Name(), args, st)
		}
	}
	// a few string functions have native SMT meanings
	switch key {
	case "strings.HasPrefix":
		return &Val{t: fmt.Sprintf("(str.prefixof %s %s)", args[1].t, args[0].t)}
	case "strings.HasSuffix":
		return &Val{t: fmt.Sprintf("(str.suffixof %s %s)", args[1].t, args[0].t)}
	case "strings.Contains":
		return &Val{t: fmt.Sprintf("(str.contains %s %s)", args[0].t, args[1].t)}
	case "strings.TrimPrefix":
		return &Val{t: fr.defSort("trim", "String", fmt.Sprintf("(ite (str.prefixof %s %s) (str.substr %s (str.len %s) (- (str.len %s) (str.len %s))) %s)",
			args[1].t, args[0].t, args[0].t, args[1].t, args[0].t, args[1].t, args[0].t))}
	case "strings.TrimSuffix":
		return &Val{t: fr.defSort("trim", "String", fmt.Sprintf("(ite (str.suffixof %s %s) (str.substr %s 0 (- (str.len %s) (str.len %s))) %s)",
			args[1].t, args[0].t, args[0].t, args[0].t, args[1].t, args[0].t))}
	case "strings.CutPrefix":
		found := fmt.Sprintf("(str.prefixof %s %s)", args[1].t, args[0].t)
		after := fr.defSort("cut", "String", fmt.Sprintf("(ite %s (str.substr %s (str.len %s) (- (str.len %s) (str.len %s))) %s)", found, args[0].t, args[1].t, args[0].t, args[1].t, args[0].t))
		return &Val{tuple: []*Val{{t: after}, {t: found}}}
	case "strings.CutSuffix":
		found := fmt.Sprintf("(str.suffixof %s %s)", args[1].t, args[0].t)
		before := fr.defSort("cut", "String", fmt.Sprintf("(ite %s (str.substr %s 0 (- (str.len %s) (str.len %s))) %s)", found, args[0].t, args[0].t, args[1].t, args[0].t))
		return &Val{tuple: []*Val{{t: before}, {t: found}}}
	case "strings.EqualFold":
		u.abstract("strings.EqualFold")
	}
	if ec := u.eng.externs[key]; ec != nil {
		return fr.applyExtern(key, ec, args, resT, st, reach, pos, c)
	}
	// anonymous functions of externs etc.
	u.defaultExt[key] = true
	if fr.pure {
		return fr.ufApply("ext:"+key, sigArgTypes(fn.Signature), args, resT, st)
	}
	return fr.unconstrained(resT, "ext", st, reach)
}

func (fr *frame) inline(fn *ssa.Function, args []*Val, bindings []*Val, resT types.Type, st *State, reach string, pos token.Pos) *Val {
	u := fr.u
	limit := maxInlineDepth
	if fr.pure {
		limit = 12
	}
	rec := false
	for _, f := range u.inlineStack {
		if f == fn {
			rec = true
		}
	}
	if fr.depth >= limit || rec {
		u.abstract("call-not-inlined:" + funcName(fn))
		if fr.pure {
			return fr.ufApply("fn:"+funcName(fn), sigArgTypes(fn.Signature), args, resT, st)
		}
		fr.havocMods(u.eng.modsetOf(fn), args, fn.Signature, st, reach)
		return fr.unconstrained(resT, "call", st, reach)
	}
	prefix := fr.prefix
	if !fr.pure {
		prefix = fr.prefix + funcName(fr.fn) + ">"
	}
	nf := u.newFrame(fn, fr.depth+1, fr.pure, prefix)
	nf.binders = fr.binders
	nf.lets = fr.lets
	if fr.pure {
		nf.preState = fr.preState
	}
	if !fr.pure {
		nf.parent, nf.via = fr, fr.cur
	}
	u.inlineStack = append(u.inlineStack, fn)
	res, exitReach, exitSt := nf.run(args, bindings, st, reach)
	u.inlineStack = u.inlineStack[:len(u.inlineStack)-1]
	if !fr.pure {
		fr.done = append(fr.done, nf)
		*st = *exitSt
		// Only executions in which the callee returns continue in the caller: the paths cut at the callee's loop back
		// edges (and its panicking paths, each already obliged unreachable) end inside the callee.
		if exitReach != reach {
			u.assume(reach, exitReach)
		}
	}
	return packResults(res, fn.Signature)
}

func packResults(res []*Val, sig *types.Signature) *Val {
	switch sig.Results().Len() {
	case 0:
		return &Val{t: "0"}
	case 1:
		if len(res) == 0 {
			return &Val{t: "0"}
		}
		return res[0]
	}
	return &Val{tuple: res}
}

// ---------------------------------------------------------------------------
// modular application of a contract of a /repo function

func (fr *frame) applyContract(fn *ssa.Function, ct *Contract, args []*Val, resT types.Type, st *State, reach string, pos token.Pos) *Val {
	u := fr.u
	u.contractsUsed[ct.Key] = true
	for _, r := range ct.Requires {
		if r.Fn == nil {
			continue
		}
		t := fr.evalSpec(r, args, st, nil)
		u.oblige(fr.obName("pre", funcName(fn)+"."+r.Label), "pre", r.Tags, reach, t, fr.pos(pos), r.Text)
	}
	pre := st.clone()
	fr.havocMods(u.eng.modsetOf(fn), args, fn.Signature, st, reach)
	na := u.declare("alloc@call", "Int")
	u.assume(reach, fmt.Sprintf("(>= %s %s)", na, st.alloc))
	st.alloc = na
	fr.flushMapWF(st)
	res := fr.unconstrained(resT, "res."+fn.Name(), st, reach)
	var rvals []*Val
	if res.tuple != nil {
		rvals = res.tuple
	} else if fn.Signature.Results().Len() == 1 {
		rvals = []*Val{res}
	}
	for _, e := range ct.Ensures {
		if e.Fn == nil && !e.Canary && u.eng.broken[e.FnName] != "" {
			// a postcondition of the callee no longer type-checks (its signature changed): it cannot be assumed here, and
			// what this unit then fails to prove is undecided, not violated
			u.calleeStale = append(u.calleeStale, fmt.Sprintf("%s: postcondition %s of callee %s", funcName(u.fn), e.Label, funcName(fn)))
			if u.calleeStaleAt == 0 || len(u.cmds) < u.calleeStaleAt {
				u.calleeStaleAt = len(u.cmds) + 1
			}
		}
		if e.Fn == nil || e.Canary {
			continue
		}
		t := fr.evalSpec(e, append(append([]*Val{}, args...), rvals...), st, pre)
		u.assume(reach, t)
	}
	return res
}

// havocMods havocs everything a callee may modify.
func (fr *frame) havocMods(ms ModSet, args []*Val, sig *types.Signature, st *State, reach string) {
	u := fr.u
	pre := st.clone()
	fr.havocNames(ms, pre, st, "havoc", reach)
	var keys []string
	for k := range ms {
		keys = append(keys, k)
	}
	sort.Strings(keys)
	var argT []types.Type
	if sig != nil {
		argT = sigArgTypes(sig)
	}
	for _, k := range keys {
		switch {
		case k == "*":
			var hs []string
			for h := range u.initHeap {
				if !strings.HasPrefix(h, "C:") {
					hs = append(hs, h)
				}
			}
			sort.Strings(hs)
			for _, h := range hs {
				st.h[h] = u.declare(h+"@havoc", u.heapSort[h])
			}
			u.abstract("havoc-all")
		case strings.HasPrefix(k, "P:"):
			var i int
			fmt.Sscanf(k, "P:%d", &i)
			if i < len(args) {
				fr.havocPointee(args[i], argT[i], st, reach)
			}
		case strings.HasPrefix(k, "PE:"):
			var i int
			fmt.Sscanf(k, "PE:%d", &i)
			if i < len(args) {
				fr.havocElems(args[i], argT[i], st, reach)
			}
		case strings.HasPrefix(k, "PF:"):
			var i int
			fmt.Sscanf(k, "PF:%d:", &i)
			if _, whole := ms[fmt.Sprintf("P:%d", i)]; whole {
				continue
			}
			if i < len(args) {
				fr.havocField(args[i], argT[i], k[strings.Index(k[3:], ":")+4:], st, reach)
			}
		}
	}
}

func (fr *frame) havocPointee(a *Val, t types.Type, st *State, reach string) {
	u := fr.u
	if _, ok := t.Underlying().(*types.Interface); ok {
		if a.boxed != nil && a.btyp != nil {
			fr.havocPointee(a.boxed, a.btyp, st, reach)
			return
		}
		fr.havocMods(ModSet{"*": nil}, nil, types.NewSignatureType(nil, nil, nil, nil, nil, false), st, reach)
		return
	}
	pt, ok := t.Underlying().(*types.Pointer)
	if !ok {
		if _, ok := t.Underlying().(*types.Slice); ok {
			fr.havocElems(a, t, st, reach)
		}
		return
	}
	lv := fr.ptrLV(a, t)
	nv := u.declare("havoc", u.sorts.sortOf(pt.Elem()))
	fr.assumeWF(pt.Elem(), nv, st, reach)
	u.write(st, lv, nv)
}

// havocField havocs one field path of the object a pointer argument points to.
func (fr *frame) havocField(a *Val, t types.Type, path string, st *State, reach string) {
	u := fr.u
	pt, ok := t.Underlying().(*types.Pointer)
	if !ok {
		fr.havocPointee(a, t, st, reach)
		return
	}
	lv := fr.ptrLV(a, t)
	cont := pt.Elem()
	for _, f := range strings.Split(path, ".") {
		var fi int
		fmt.Sscanf(f, "%d", &fi)
		stt, ok := cont.Underlying().(*types.Struct)
		if !ok || fi >= stt.NumFields() {
			fr.havocPointee(a, t, st, reach)
			return
		}
		ft := stt.Field(fi).Type()
		lv = lv.extendField(fi, cont, ft)
		cont = ft
	}
	nv := u.declare("havoc", u.sorts.sortOf(cont))
	fr.assumeWF(cont, nv, st, reach)
	u.write(st, lv, nv)
}

func (fr *frame) havocElems(a *Val, t types.Type, st *State, reach string) {
	u := fr.u
	s := u.sorts
	sl, ok := t.Underlying().(*types.Slice)
	if !ok {
		return
	}
	et := sl.Elem()
	name := "E:" + s.typeKey(et)
	hs := "(Array Int (Array Int " + s.sortOf(et) + "))"
	h := u.heapGet(st, name, hs)
	nv := u.declare("havocelems", "(Array Int "+s.sortOf(et)+")")
	if b, ok := et.Underlying().(*types.Basic); ok && b.Kind() == types.Uint8 {
		k := u.fresh("k")
		u.assume("true", fmt.Sprintf("(forall ((%s Int)) (! (and (<= 0 (select %s %s)) (<= (select %s %s) 255)) :pattern ((select %s %s))))", k, nv, k, nv, k, nv, k))
	}
	// only the window of the backing array that the slice can reach (offset .. offset+cap) may have been written
	old := u.define("elems0", "(Array Int "+s.sortOf(et)+")", fmt.Sprintf("(select %s (s-arr %s))", h, a.t))
	i := u.fresh("i")
	u.assume("true", fmt.Sprintf("(forall ((%s Int)) (! (=> (or (< %s (s-off %s)) (>= %s (+ (s-off %s) (s-cap %s)))) (= (select %s %s) (select %s %s))) :pattern ((select %s %s))))",
		i, i, a.t, i, a.t, a.t, nv, i, old, i, nv, i))
	u.heapSet(st, name, hs, fmt.Sprintf("(store %s (s-arr %s) %s)", h, a.t, nv))
}

// copyElems: copy(dst, src) - the first n elements of dst's window become src's (as they were before the copy: overlap
// is handled the way memmove does), everything else in dst's backing array stays.
func (fr *frame) copyElems(dst, src *Val, t types.Type, n string, srcIsString bool, st *State, reach string) {
	u := fr.u
	s := u.sorts
	sl, ok := t.Underlying().(*types.Slice)
	if !ok {
		return
	}
	et := sl.Elem()
	es := s.sortOf(et)
	name := "E:" + s.typeKey(et)
	hs := "(Array Int (Array Int " + es + "))"
	h := u.heapGet(st, name, hs)
	nv := u.declare("copied", "(Array Int "+es+")")
	old := u.define("elems0", "(Array Int "+es+")", fmt.Sprintf("(select %s (s-arr %s))", h, dst.t))
	i := u.fresh("i")
	in := fmt.Sprintf("(and (<= (s-off %s) %s) (< %s (+ (s-off %s) %s)))", dst.t, i, i, dst.t, n)
	u.assume("true", fmt.Sprintf("(forall ((%s Int)) (! (=> (not %s) (= (select %s %s) (select %s %s))) :pattern ((select %s %s))))", i, in, nv, i, old, i, nv, i))
	if !srcIsString {
		from := u.define("elems0", "(Array Int "+es+")", fmt.Sprintf("(select %s (s-arr %s))", h, src.t))
		u.assume("true", fmt.Sprintf("(forall ((%s Int)) (! (=> %s (= (select %s %s) (select %s (+ (- %s (s-off %s)) (s-off %s))))) :pattern ((select %s %s))))",
			i, in, nv, i, from, i, dst.t, src.t, nv, i))
	} else if b, ok := et.Underlying().(*types.Basic); ok && b.Kind() == types.Uint8 {
		u.assume("true", fmt.Sprintf("(forall ((%s Int)) (! (and (<= 0 (select %s %s)) (<= (select %s %s) 255)) :pattern ((select %s %s))))", i, nv, i, nv, i, nv, i))
		u.abstract("copy-from-string-contents")
	}
	u.heapSet(st, name, hs, fmt.Sprintf("(store %s (s-arr %s) %s)", h, dst.t, nv))
}

// ---------------------------------------------------------------------------
// assumed contracts of dependencies

func (fr *frame) applyExtern(key string, ec *ExternContract, args []*Val, resT types.Type, st *State, reach string, pos token.Pos, c *ssa.CallCommon) *Val {
	u := fr.u
	u.externsUsed[key] = true
	argT := ec.ArgTypes
	if len(argT) != len(args) {
		u.warn("extern %s: arity mismatch (%d vs %d)", key, len(argT), len(args))
		u.eng.stale = append(u.eng.stale, "extern "+key+": arity")
		return fr.unconstrained(resT, "ext", st, reach)
	}
	if !fr.pure {
		for _, r := range ec.Requires {
			if r.Fn == nil {
				continue
			}
			t := fr.evalSpec(r, args, st, nil)
			u.oblige(fr.obName("pre", key+"."+r.Label), "pre", r.Tags, reach, t, fr.pos(pos), r.Text)
		}
	}
	if ec.Pure && ec.ByValue {
		var vt []types.Type
		var vv []*Val
		for i, a := range args {
			if pt, ok := argT[i].Underlying().(*types.Pointer); ok {
				vt = append(vt, pt.Elem())
				vv = append(vv, &Val{t: u.read(st, fr.ptrLV(a, argT[i]))})
			} else {
				vt = append(vt, argT[i])
				vv = append(vv, a)
			}
		}
		res := fr.ufApply("ext:"+key, vt, vv, resT, st)
		fr.assumeResultWF(res, resT, st, reach)
		fr.assumeEnsures(ec, args, res, resT, st, nil, reach)
		return res
	}
	if ec.ClockReads {
		// a clock reading: the same value for the same ghost epoch, which calls that can take time move on
		ep := u.heapGet(st, "GH:clock", "Int")
		res := fr.ufApply("ext:"+key, append(append([]types.Type{}, argT...), types.Typ[types.Int]), append(append([]*Val{}, args...), &Val{t: ep}), resT, st)
		fr.assumeResultWF(res, resT, st, reach)
		fr.assumeEnsures(ec, args, res, resT, st, nil, reach)
		return res
	}
	if ec.ClockAdvances && !fr.pure {
		old := u.heapGet(st, "GH:clock", "Int")
		ne := u.declare("epoch", "Int")
		u.assume(reach, fmt.Sprintf("(> %s %s)", ne, old))
		u.heapSet(st, "GH:clock", "Int", ne)
	}
	if ec.Pure || fr.pure {
		res := fr.ufApply("ext:"+key, argT, args, resT, st)
		fr.assumeResultWF(res, resT, st, reach)
		fr.assumeEnsures(ec, args, res, resT, st, nil, reach)
		return res
	}
	pre := st.clone()
	for _, m := range ec.Modifies {
		switch {
		case m == "*":
			fr.havocMods(ModSet{"*": nil}, nil, nil, st, reach)
		case strings.HasPrefix(m, "*arg"):
			var i int
			fmt.Sscanf(m, "*arg%d", &i)
			fr.havocPointee(args[i], argT[i], st, reach)
		case strings.HasPrefix(m, "elems arg"):
			var i int
			fmt.Sscanf(m, "elems arg%d", &i)
			fr.havocElems(args[i], argT[i], st, reach)
		case strings.HasPrefix(m, "arg") && strings.Contains(m, "."):
			// argN.Field: one named field of the pointee
			var i int
			fmt.Sscanf(m, "arg%d.", &i)
			fname := m[strings.Index(m, ".")+1:]
			if pt, ok := argT[i].Underlying().(*types.Pointer); ok {
				if stt, ok := pt.Elem().Underlying().(*types.Struct); ok {
					for fi := 0; fi < stt.NumFields(); fi++ {
						if stt.Field(fi).Name() == fname {
							fr.havocField(args[i], argT[i], fmt.Sprint(fi), st, reach)
						}
					}
				}
			}
		}
	}
	var res *Val
	if ec.Fresh {
		res = fr.freshResult(resT, st, reach)
	} else {
		res = fr.unconstrained(resT, "ext."+shortKey(key), st, reach)
	}
	fr.assumeEnsures(ec, args, res, resT, st, pre, reach)
	return res
}

func shortKey(k string) string {
	if i := strings.LastIndex(k, "/"); i >= 0 {
		k = k[i+1:]
	}
	return k
}

func (fr *frame) assumeResultWF(res *Val, resT types.Type, st *State, reach string) {
	if res.tuple != nil {
		tup := resT.(*types.Tuple)
		for i, r := range res.tuple {
			fr.assumeWF(tup.At(i).Type(), r.t, st, reach)
		}
		return
	}
	if _, ok := resT.(*types.Tuple); ok {
		return
	}
	fr.assumeWF(resT, res.t, st, reach)
}

func (fr *frame) assumeEnsures(ec *ExternContract, args []*Val, res *Val, resT types.Type, st *State, pre *State, reach string) {
	var rvals []*Val
	if res.tuple != nil {
		rvals = res.tuple
	} else if tup, ok := resT.(*types.Tuple); !ok || tup.Len() > 0 {
		rvals = []*Val{res}
	}
	for _, e := range ec.Ensures {
		if e.Fn == nil {
			continue
		}
		t := fr.evalSpec(e, append(append([]*Val{}, args...), rvals...), st, pre)
		if fr.pure {
			// inside specifications the ensures of pure externs are not needed
			continue
		}
		fr.u.assume(reach, t)
	}
}

// freshResult: first result is a freshly allocated, non-nil object (pointer or interface holding one).
func (fr *frame) freshResult(resT types.Type, st *State, reach string) *Val {
	u := fr.u
	mk := func(t types.Type) *Val {
		switch t.Underlying().(type) {
		case *types.Interface:
			ref := fr.allocRef(st)
			tag := u.declare("freshtag", "Int")
			u.assume("true", fmt.Sprintf("(> %s 0)", tag))
			return &Val{t: u.define("fresh", "Iface", fmt.Sprintf("(mk-iface %s %s)", tag, ref))}
		case *types.Pointer, *types.Map:
			return &Val{t: fr.allocRef(st)}
		case *types.Slice:
			// a slice the callee allocated: nil, or a window of an array nobody else holds
			v := fr.unconstrained(t, "fresh", st, reach)
			ref := fr.allocRef(st)
			u.assume(reach, fmt.Sprintf("(or (= %s (mk-slice 0 0 0 0)) (= (s-arr %s) %s))", v.t, v.t, ref))
			return v
		}
		return fr.unconstrained(t, "fresh", st, reach)
	}
	if tup, ok := resT.(*types.Tuple); ok {
		v := &Val{}
		for i := 0; i < tup.Len(); i++ {
			if i == 0 {
				v.tuple = append(v.tuple, mk(tup.At(i).Type()))
			} else {
				v.tuple = append(v.tuple, fr.unconstrained(tup.At(i).Type(), "fresh", st, reach))
			}
		}
		return v
	}
	return mk(resT)
}

// ---------------------------------------------------------------------------
// specification evaluation

// evalSpec evaluates a clause (a synthesised boolean Go function) as a pure term.
func (fr *frame) evalSpec(c *Clause, args []*Val, st *State, pre *State) string {
	u := fr.u
	if c.Fn == nil {
		return "true"
	}
	nf := u.newFrame(c.Fn, fr.depth+1, true, fr.prefix)
	nf.preState = pre
	nf.binders = fr.binders
	nf.lets = fr.lets
	if len(args) != len(c.Fn.Params) {
		u.warn("clause %s: argument count mismatch (%d vs %d)", c.FnName, len(args), len(c.Fn.Params))
		u.eng.stale = append(u.eng.stale, c.FnName+": arity")
		return "true"
	}
	// convert pointer args with symbolic addresses into terms where possible
	res, _, _ := nf.run(args, nil, st, "true")
	if len(res) == 0 {
		return "true"
	}
	return res[0].t
}

// reevalIn computes the value of v again with every load taken from state st (used for old()).
func (fr *frame) reevalIn(v ssa.Value, st *State, reach string) *Val {
	var order []ssa.Instruction
	seen := map[ssa.Value]bool{}
	var visit func(v ssa.Value)
	visit = func(v ssa.Value) {
		in, ok := v.(ssa.Instruction)
		if !ok || seen[v] || in.Parent() != fr.fn {
			return
		}
		seen[v] = true
		if _, isPhi := v.(*ssa.Phi); isPhi {
			return
		}
		for _, op := range in.Operands(nil) {
			if *op != nil {
				visit(*op)
			}
		}
		order = append(order, in)
	}
	visit(v)
	saved := map[ssa.Value]*Val{}
	for _, in := range order {
		if val, ok := in.(ssa.Value); ok {
			saved[val] = fr.vals[val]
		}
	}
	for _, in := range order {
		fr.execInstr(in, st, reach, in.Block())
	}
	out := &Val{t: fr.valTerm(fr.valOf(v), st)}
	for val, old := range saved {
		if old == nil {
			delete(fr.vals, val)
		} else {
			fr.vals[val] = old
		}
	}
	return out
}

func (fr *frame) callSpecBuiltin(fn *ssa.Function, args []*Val, resT types.Type, st *State, reach string) *Val {
	u := fr.u
	if strings.HasPrefix(fn.Name(), "allocatedHere") && len(args) == 1 {
		// allocatedHere*(x): the object a pointer refers to / the backing array of a slice was allocated by the function
		// under verification (after its entry): it cannot be something an earlier invocation, a cache, a pool or a package
		// variable still holds. (Declared per argument type as a bodyless `ghost func allocatedHereT(x T) bool`.)
		a := args[0]
		if a.t == "" && a.lv != nil && a.lv.kind == lvCell && strings.HasPrefix(a.lv.name, "C:") {
			return &Val{t: "true"} // a local of this invocation
		}
		if a.t == "" || u.alloc0 == "" {
			return &Val{t: "false"} // a package variable, or something without an address of its own
		}
		if _, isSlice := fn.Signature.Params().At(0).Type().Underlying().(*types.Slice); isSlice {
			return &Val{t: fmt.Sprintf("(>= (s-arr %s) %s)", a.t, u.alloc0)}
		}
		return &Val{t: fmt.Sprintf("(>= %s %s)", a.t, u.alloc0)}
	}
	switch fn.Name() {
	case "forall", "exists":
		lo, hi := args[0].t, args[1].t
		f := args[2]
		if f.fn == nil {
			u.unsupport("quantifier body is not a function literal")
			return &Val{t: "true"}
		}
		k := u.fresh("k")
		nf := u.newFrame(f.fn, fr.depth+1, true, fr.prefix)
		nf.binders = fr.binders + 1
		nf.preState = fr.preState
		var lets [][2]string
		nf.lets = &lets
		res, _, _ := nf.run([]*Val{{t: k}}, f.bindings, st, "true")
		body := "true"
		if len(res) > 0 {
			body = res[0].t
		}
		for i := len(lets) - 1; i >= 0; i-- {
			body = fmt.Sprintf("(let ((%s %s)) %s)", lets[i][0], lets[i][1], body)
		}
		rng := fmt.Sprintf("(and (<= %s %s) (< %s %s))", lo, k, k, hi)
		if fn.Name() == "forall" {
			return &Val{t: fmt.Sprintf("(forall ((%s Int)) (=> %s %s))", k, rng, body)}
		}
		return &Val{t: fmt.Sprintf("(exists ((%s Int)) (and %s %s))", k, rng, body)}
	case "NoLocksHeld":
		h := u.heapGet(st, "GH:locks", "(Array Int Int)")
		return &Val{t: fmt.Sprintf("(= %s ((as const (Array Int Int)) 0))", h)}
	case "sameSlice", "sameCerts", "sameElems", "sameStrings", "sameBytes", "sameAttrs", "sameChain", "sameFunc", "sameCipherFunc", "sameClaims", "sameTracked":
		// identity of the two values (slice headers, or function values - which Go itself cannot compare)
		return &Val{t: eq(fr.valTerm(args[0], st), fr.valTerm(args[1], st))}
	case "fixedText":
		// the argument is a compile-time constant of the program (go/ssa folds concatenations of constants): nothing that
		// arrives at run time - a relay state, a name from a message - is part of it
		t := fr.valTerm(args[0], st)
		if len(t) >= 2 && strings.HasPrefix(t, "\"") && strings.HasSuffix(t, "\"") {
			return &Val{t: "true"}
		}
		return &Val{t: "false"}
	case "sameArray":
		// the two slices are windows of one backing array (where each window starts follows from cap: cap = capacity of
		// the array minus the window's offset)
		return &Val{t: fmt.Sprintf("(= (s-arr %s) (s-arr %s))", fr.valTerm(args[0], st), fr.valTerm(args[1], st))}
	case "ns":
		return args[0]
	case "nsToTime":
		return args[0]
	case "old", "oldS":
		return args[0]
	}
	// ghost predicate / function: uninterpreted
	return fr.ufApply("ghost:"+fn.Name(), sigArgTypes(fn.Signature), args, resT, st)
}

// ---------------------------------------------------------------------------
// builtins

func (fr *frame) callBuiltin(b *ssa.Builtin, c *ssa.CallCommon, args []*Val, st *State, reach string, pos token.Pos) *Val {
	u := fr.u
	s := u.sorts
	switch b.Name() {
	case "len", "cap":
		a := args[0]
		switch at := c.Args[0].Type().Underlying().(type) {
		case *types.Slice:
			if b.Name() == "len" {
				return &Val{t: fmt.Sprintf("(s-len %s)", a.t)}
			}
			return &Val{t: fmt.Sprintf("(s-cap %s)", a.t)}
		case *types.Basic:
			return &Val{t: fmt.Sprintf("(str.len %s)", a.t)}
		case *types.Map:
			f := s.uf("maplen", []string{"Int", "Int"}, "Int")
			_ = at
			v := fmt.Sprintf("(%s %s 0)", f, a.t)
			if !fr.pure {
				u.assume("true", fmt.Sprintf("(>= %s 0)", v))
			}
			return &Val{t: v}
		case *types.Pointer:
			if arr, ok := at.Elem().Underlying().(*types.Array); ok {
				return &Val{t: fmt.Sprintf("%d", arr.Len())}
			}
		case *types.Array:
			return &Val{t: fmt.Sprintf("%d", at.Len())}
		}
		return fr.unconstrained(types.Typ[types.Int], "len", st, reach)
	case "append":
		return fr.builtinAppend(c, args, st, reach)
	case "copy":
		dst, src := args[0], args[1]
		n := u.declare("copyn", "Int")
		var srcLen string
		if isString(c.Args[1].Type()) {
			srcLen = fmt.Sprintf("(str.len %s)", src.t)
		} else {
			srcLen = fmt.Sprintf("(s-len %s)", src.t)
		}
		u.assume(reach, fmt.Sprintf("(= %s (ite (< (s-len %s) %s) (s-len %s) %s))", n, dst.t, srcLen, dst.t, srcLen))
		fr.copyElems(dst, src, c.Args[0].Type(), n, isString(c.Args[1].Type()), st, reach)
		return &Val{t: n}
	case "clear":
		switch t := c.Args[0].Type().Underlying().(type) {
		case *types.Slice:
			// every element the slice can see becomes the zero value; the rest of the backing array stays
			s := u.sorts
			et := t.Elem()
			es := s.sortOf(et)
			name := "E:" + s.typeKey(et)
			hs := "(Array Int (Array Int " + es + "))"
			h := u.heapGet(st, name, hs)
			a := args[0]
			nv := u.declare("cleared", "(Array Int "+es+")")
			old := u.define("elems0", "(Array Int "+es+")", fmt.Sprintf("(select %s (s-arr %s))", h, a.t))
			i := u.fresh("i")
			in := fmt.Sprintf("(and (<= (s-off %s) %s) (< %s (+ (s-off %s) (s-len %s))))", a.t, i, i, a.t, a.t)
			u.assume("true", fmt.Sprintf("(forall ((%s Int)) (! (= (select %s %s) (ite %s %s (select %s %s))) :pattern ((select %s %s))))", i, nv, i, in, s.zero(et), old, i, nv, i))
			u.heapSet(st, name, hs, fmt.Sprintf("(store %s (s-arr %s) %s)", h, a.t, nv))
		case *types.Map:
			pn, ps, _, _ := fr.mapHeaps(t)
			hp := u.heapGet(st, pn, ps)
			u.heapSet(st, pn, ps, fmt.Sprintf("(store %s %s ((as const (Array %s Bool)) false))", hp, args[0].t, u.sorts.sortOf(t.Key())))
		}
		return &Val{t: "0"}
	case "delete":
		if args[0].guard != "" && !fr.pure {
			h := u.heapGet(st, "GH:locks", "(Array Int Int)")
			u.oblige(fr.obName("guard-write", fr.describe(c.Args[0], 0)), "lock", []string{"C20"}, reach,
				fmt.Sprintf("(= (select %s %s) 2)", h, args[0].guard), fr.pos(pos), "guarded map is updated only under the write lock")
		}
		mt := c.Args[0].Type().Underlying().(*types.Map)
		pn, ps, _, _ := fr.mapHeaps(mt)
		hp := u.heapGet(st, pn, ps)
		k := fr.valTerm(args[1], st)
		u.heapSet(st, pn, ps, fmt.Sprintf("(store %s %s (store (select %s %s) %s false))", hp, args[0].t, hp, args[0].t, k))
		return &Val{t: "0"}
	case "print", "println":
		return &Val{t: "0"}
	case "recover":
		return &Val{t: "(mk-iface 0 0)"}
	case "ssa:wrapnilchk":
		return args[0]
	case "min", "max":
		op := "<"
		if b.Name() == "max" {
			op = ">"
		}
		t := args[0].t
		for _, a := range args[1:] {
			t = fmt.Sprintf("(ite (%s %s %s) %s %s)", op, t, a.t, t, a.t)
		}
		return &Val{t: t}
	}
	u.unsupport("%s: builtin %s", funcName(fr.fn), b.Name())
	var resT types.Type = c.Signature().Results()
	return fr.unconstrained(resT, "builtin", st, reach)
}

func (fr *frame) builtinAppend(c *ssa.CallCommon, args []*Val, st *State, reach string) *Val {
	u := fr.u
	s := u.sorts
	a, b := args[0], args[1]
	st0 := c.Args[0].Type().Underlying().(*types.Slice)
	et := st0.Elem()
	es := s.sortOf(et)
	name := "E:" + s.typeKey(et)
	hs := "(Array Int (Array Int " + es + "))"
	if fr.pure {
		return fr.ufApply("append", []types.Type{c.Args[0].Type(), c.Args[1].Type()}, args, c.Args[0].Type(), st)
	}
	h := u.heapGet(st, name, hs)
	la := fmt.Sprintf("(s-len %s)", a.t)
	var lb string
	bIsString := isString(c.Args[1].Type())
	if bIsString {
		lb = fmt.Sprintf("(str.len %s)", b.t)
	} else {
		lb = fmt.Sprintf("(s-len %s)", b.t)
	}
	arr := fr.allocRef(st)
	cont := u.declare("appended", "(Array Int "+es+")")
	k := u.fresh("k")
	// prefix copied from a
	at := s.atFn(et)
	u.assume(reach, fmt.Sprintf("(forall ((%s Int)) (! (=> (and (<= 0 %s) (< %s %s)) (= (select %s %s) (%s (select %s (s-arr %s)) %s %s))) :pattern ((select %s %s))))",
		k, k, k, la, cont, k, at, h, a.t, a.t, k, cont, k))
	if !bIsString {
		k2 := u.fresh("k")
		u.assume(reach, fmt.Sprintf("(forall ((%s Int)) (! (=> (and (<= %s %s) (< %s (+ %s %s))) (= (select %s %s) (%s (select %s (s-arr %s)) %s (- %s %s)))) :pattern ((select %s %s))))",
			k2, la, k2, k2, la, lb, cont, k2, at, h, b.t, b.t, k2, la, cont, k2))
	}
	u.heapSet(st, name, hs, fmt.Sprintf("(store %s %s %s)", h, arr, cont))
	nl := u.define("applen", "Int", fmt.Sprintf("(+ %s %s)", la, lb))
	nc := u.declare("appcap", "Int")
	u.assume(reach, fmt.Sprintf("(>= %s %s)", nc, nl))
	u.abstract("append-reallocates")
	return &Val{t: u.define("app", "Slice", fmt.Sprintf("(mk-slice %s 0 %s %s)", arr, nl, nc))}
}


// devirtualise: an interface method call whose /repo implementations are all small side-effect-free
// accessors is resolved by a case split on the dynamic type tag; other dynamic types stay arbitrary.
func (fr *frame) devirtualise(c *ssa.CallCommon, recv *Val, args []*Val, resT types.Type, st *State, reach string, pos token.Pos) *Val {
	u := fr.u
	if _, isTuple := resT.(*types.Tuple); isTuple || len(args) > 0 {
		return nil
	}
	if u.eng.externs[c.Method.FullName()] != nil {
		return nil
	}
	impls := u.eng.accessorImpls(c.Method)
	if len(impls) == 0 {
		return nil
	}
	// foreign implementations of an accessor are assumed deterministic (a function of the receiver)
	dflt := fr.ufApply("dyn:"+c.Method.FullName(), []types.Type{c.Value.Type()}, []*Val{recv}, resT, st)
	if !fr.pure {
		fr.assumeWF(resT, dflt.t, st, reach)
		u.dynCalls[c.Method.FullName()+" (other dynamic types: deterministic accessor)"] = true
	}
	term := dflt.t
	for _, im := range impls {
		tag := u.sorts.typeID(im.recvT)
		var rv *Val
		if isPointerLike(im.recvT) {
			rv = &Val{t: fmt.Sprintf("(i-val %s)", recv.t)}
		} else {
			_, unbox := fr.boxFns(im.recvT)
			rv = &Val{t: fmt.Sprintf("(%s (i-val %s))", unbox, recv.t)}
		}
		nf := u.newFrame(im.fn, fr.depth+1, true, fr.prefix)
		nf.binders = fr.binders
		nf.lets = fr.lets
		res, _, _ := nf.run([]*Val{rv}, nil, st, "true")
		if len(res) != 1 {
			return nil
		}
		term = ite(fmt.Sprintf("(= (i-tag %s) %d)", recv.t, tag), res[0].t, term)
	}
	return &Val{t: fr.def("devirt", resT, term)}
}


// ---------------------------------------------------------------------------
// lock discipline as sequential ghost state (C20): GH:locks maps a lock identity to 0 (free), 1 (read-held), 2 (write-held)

// lockID gives the identity term of the mutex a pointer value designates: (base object, field path).
func (fr *frame) lockID(a *Val, st *State) string {
	u := fr.u
	f := u.sorts.uf("lockid", []string{"Int", "Int"}, "Int")
	if a.lv != nil && a.t == "" {
		lv := a.lv
		base := "0"
		switch lv.kind {
		case lvHeap:
			base = lv.ref
		case lvCell:
			base = fmt.Sprint(stableHash(lv.name))
		case lvElem:
			base = lv.ref
		}
		path := lv.name
		for _, p := range lv.path {
			path += fmt.Sprintf(".%d", p.field)
		}
		return fmt.Sprintf("(%s %s %d)", f, base, stableHash(path))
	}
	return fmt.Sprintf("(%s %s 0)", f, fr.valTerm(a, st))
}

func stableHash(s string) int {
	h := 0
	for i := 0; i < len(s); i++ {
		h = (h*131 + int(s[i])) % 1000003
	}
	return h + 1
}

// unlockDeferred: an unlock is among the deferred calls of this frame or of a frame it is inlined into.
func (fr *frame) unlockDeferred() bool {
	for f := fr; f != nil; f = f.parent {
		for _, d := range f.defers {
			if c := d.instr.Common(); c != nil && !c.IsInvoke() {
				if sf := c.StaticCallee(); sf != nil {
					switch externKey(sf) {
					case "(*sync.RWMutex).RUnlock", "(*sync.RWMutex).Unlock", "(*sync.Mutex).Unlock":
						return true
					}
				}
			}
		}
	}
	return false
}

// mayPanic: the function, or a /repo function it calls statically, contains a panic statement.
func (e *Engine) mayPanic(fn *ssa.Function, depth int) bool {
	if v, ok := e.panics[fn]; ok {
		return v
	}
	if depth > 6 {
		return false
	}
	e.panics[fn] = false // cycles
	res := false
	for _, b := range fn.Blocks {
		for _, in := range b.Instrs {
			switch x := in.(type) {
			case *ssa.Panic:
				res = true
			case ssa.CallInstruction:
				if c := x.Common(); !c.IsInvoke() {
					if sf := c.StaticCallee(); sf != nil && isRepoFunc(sf) && len(sf.Blocks) > 0 && e.mayPanic(sf, depth+1) {
						res = true
					}
				}
			}
		}
	}
	e.panics[fn] = res
	return res
}

func (fr *frame) lockOp(key string, args []*Val, st *State, reach string, pos token.Pos) (*Val, bool) {
	var want, set int
	switch key {
	case "(*sync.RWMutex).RLock":
		want, set = 0, 1
	case "(*sync.RWMutex).Lock", "(*sync.Mutex).Lock":
		want, set = 0, 2
	case "(*sync.RWMutex).RUnlock":
		want, set = 1, 0
	case "(*sync.RWMutex).Unlock", "(*sync.Mutex).Unlock":
		want, set = 2, 0
	default:
		return nil, false
	}
	u := fr.u
	if fr.pure || len(args) == 0 {
		return &Val{t: "0"}, true
	}
	id := u.define("lock", "Int", fr.lockID(args[0], st))
	h := u.heapGet(st, "GH:locks", "(Array Int Int)")
	name := "lock-free"
	clause := "the lock is not already held by this request (sync.RWMutex is not reentrant: a second RLock can deadlock against a waiting writer)"
	if set == 0 {
		name = "lock-held"
		clause = "unlock of a lock that is held in the matching mode"
	}
	u.oblige(fr.obName(name, shortKey(key)), "lock", []string{"C20"}, reach, fmt.Sprintf("(= (select %s %s) %d)", h, id, want), fr.pos(pos), clause)
	if set != 0 && u.eng.atomic[u.fn] {
		// `atomic` operations (the store's Get / Put / Delete / List): what the operation reads and what it answers belong to
		// ONE critical section. A second acquisition of the same lock in one call - directly or in a helper - means other
		// requests ran in between, and the answer is put together from two states of the data.
		uses := u.heapGet(st, "GH:lockuses", "(Array Int Int)")
		u.oblige(fr.obName("lock-once", shortKey(key)), "lock", []string{"C20"}, reach, fmt.Sprintf("(= (select %s %s) 0)", uses, id), fr.pos(pos),
			"an atomic operation takes its lock for one critical section only: between two sections other requests change what the first one saw")
		u.heapSet(st, "GH:lockuses", "(Array Int Int)", fmt.Sprintf("(store %s %s 1)", uses, id))
	}
	u.heapSet(st, "GH:locks", "(Array Int Int)", fmt.Sprintf("(store %s %s %d)", h, id, set))
	u.locksUsed = true
	return &Val{t: "0"}, true
}

// crossCallState: the frame condition of every contract in /repo is "nothing that outlives the call is kept in package
// variables": results are stated as functions of the arguments and the configuration. A unit that hands a package-level
// sync.Pool or sync.Map of /repo to a call (Get/Put, Load/Store/LoadOrStore ...), or updates a package-level map outside
// the package initialiser, keeps state between calls (a buffer another request filled, a verdict or key cached under a
// name the peer chooses); no contract written over one call can account for it, and the obligation fails by itself.
// Variables the package's contract file names are exempt (the contracts talk about them).
func (fr *frame) crossCallState(c *ssa.CallCommon, reach string, pos token.Pos) {
	if fr.pure || (fr.fn.Synthetic != "" && fr.fn.Name() == "init") {
		return
	}
	ops := append([]ssa.Value{}, c.Args...)
	if c.IsInvoke() {
		ops = append(ops, c.Value)
	}
	for _, a := range ops {
		g, ok := a.(*ssa.Global)
		if !ok || !fr.u.eng.keptBetweenCalls(g) {
			continue
		}
		pt, ok := g.Type().Underlying().(*types.Pointer)
		if !ok {
			continue
		}
		nt, ok := pt.Elem().(*types.Named)
		if !ok || nt.Obj().Pkg() == nil || nt.Obj().Pkg().Path() != "sync" || (nt.Obj().Name() != "Pool" && nt.Obj().Name() != "Map") {
			continue
		}
		fr.u.oblige(fr.obName("frame", "cross-call-state."+g.Name()), "frame", nil, reach, "false", fr.pos(pos),
			"package variable "+g.Name()+" (sync."+nt.Obj().Name()+") carries state from one call to the next; the contracts state each result as a function of the call's own arguments")
	}
}

// keptBetweenCalls: a package-level variable of /repo that the package's contract file does not name
func (e *Engine) keptBetweenCalls(g *ssa.Global) bool {
	if g.Pkg == nil || !strings.HasPrefix(g.Pkg.Pkg.Path(), modPath) {
		return false
	}
	dir := strings.TrimPrefix(strings.TrimPrefix(g.Pkg.Pkg.Path(), modPath), "/")
	if text, err := os.ReadFile(filepath.Join(repoDir, dir, "verif_contracts.go")); err == nil {
		if regexp.MustCompile(`\b` + regexp.QuoteMeta(g.Name()) + `\b`).Match(text) {
			return false
		}
	}
	return true
}

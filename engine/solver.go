package main

import (
	"bytes"
	"context"
	"fmt"
	"os/exec"
	"strings"
	"sync"
	"time"
)

type solverSpec struct {
	name string
	cmd  []string
	cvc  bool
}

var (
	z3new = solverSpec{name: "z3-5.1.0", cmd: []string{"z3-new", "-in", "-smt2"}}
	z3em  = solverSpec{name: "z3-5.1.0/ematching", cmd: []string{"z3-new", "-in", "-smt2", "smt.mbqi=false", "smt.auto_config=false"}}
	z3mb  = solverSpec{name: "z3-5.1.0/mbqi", cmd: []string{"z3-new", "-in", "-smt2", "smt.ematching=false"}}
	z3old = solverSpec{name: "z3-4.8.12", cmd: []string{"/usr/bin/z3", "-in", "-smt2"}}
	cvc5  = solverSpec{name: "cvc5-1.0", cmd: []string{"cvc5", "--lang", "smt2", "--strings-exp", "--incremental"}, cvc: true}
)

// query builds the SMT-LIB text for one obligation.
func (u *Unit) query(ob *Obligation, forCVC bool, withModel bool) string {
	return u.queryV(ob, forCVC, withModel, false)
}

// queryV: macroAt selects the quantifier-free definition of slice element access.
func (u *Unit) queryV(ob *Obligation, forCVC bool, withModel bool, macroAt bool) string {
	var b strings.Builder
	if forCVC || withModel {
		b.WriteString("(set-option :produce-models true)\n")
	}
	if forCVC {
		b.WriteString("(set-logic ALL)\n")
	}
	for _, d := range u.sorts.decls {
		b.WriteString(d)
		b.WriteByte('\n')
	}
	ats := u.sorts.atAxioms
	if macroAt {
		ats = u.sorts.atMacros
	}
	for _, d := range ats {
		b.WriteString(d)
		b.WriteByte('\n')
	}
	for _, ax := range u.eng.axioms {
		b.WriteString(ax)
		b.WriteByte('\n')
	}
	for i := 0; i < ob.cmdIdx; i++ {
		c := u.cmds[i]
		switch c.kind {
		case cmdDecl, cmdAssume:
			if macroAt && c.alt != "" {
				b.WriteString(c.alt)
			} else {
				b.WriteString(c.text)
			}
			b.WriteByte('\n')
		case cmdOblig:
			if c.ob.Canary || ob.Canary {
				continue
			}
			// an obligation this run does not check must not be assumed either: it may be the one that fails
			// (a failed safety obligation aborts the execution, so the code after it runs only when it held: those stay
			// path conditions whether or not this run checks them)
			if c.ob.Unchecked && !safetyKinds[c.ob.Kind] {
				continue
			}
			// obligations about end states (returns, back edges, loop entry) cannot help later program points
			if c.ob.Kind == "ensures" || c.ob.Kind == "inv-step" || c.ob.Kind == "inv-init" {
				continue
			}
			// quantified registry invariants are proved where they stand; as assumptions they only cost model finding
			if c.ob.Kind == "mapinv" && strings.HasPrefix(c.ob.Cond, "(forall") {
				continue
			}
			fmt.Fprintf(&b, "(assert %s)\n", implies(c.ob.Guard, c.ob.Cond))
		}
	}
	fmt.Fprintf(&b, "(assert %s)\n(assert (not %s))\n(check-sat)\n", ob.Guard, ob.Cond)
	if withModel {
		var vt []string
		for i, t := range u.valueTerms {
			if u.valueIdx[i] <= ob.cmdIdx {
				vt = append(vt, t)
			}
		}
		if len(vt) > 0 {
			fmt.Fprintf(&b, "(get-value (%s))\n", strings.Join(vt, " "))
		}
	}
	return b.String()
}

type solveResult struct {
	result string // unsat sat unknown timeout error
	solver string
	ms     int64
	out    string
}

func runSolver(sp solverSpec, q string, timeout time.Duration) solveResult {
	ctx, cancel := context.WithTimeout(context.Background(), timeout+500*time.Millisecond)
	defer cancel()
	args := append([]string{}, sp.cmd[1:]...)
	if sp.cvc {
		args = append(args, fmt.Sprintf("--tlimit=%d", timeout.Milliseconds()))
	} else {
		args = append(args, fmt.Sprintf("-T:%d", int(timeout.Seconds())))
	}
	cmd := exec.CommandContext(ctx, sp.cmd[0], args...)
	cmd.Stdin = strings.NewReader(q)
	var out bytes.Buffer
	cmd.Stdout = &out
	cmd.Stderr = &out
	t0 := time.Now()
	_ = cmd.Run()
	ms := time.Since(t0).Milliseconds()
	o := out.String()
	first := ""
	for _, ln := range strings.Split(o, "\n") {
		t := strings.TrimSpace(ln)
		if t == "sat" || t == "unsat" || t == "unknown" || t == "timeout" {
			first = t
			break
		}
	}
	res := "error"
	switch {
	case first == "unsat":
		res = "unsat"
	case first == "sat":
		res = "sat"
	case first == "unknown":
		res = "unknown"
	case first == "timeout" || ctx.Err() != nil || strings.Contains(o, "timeout") || strings.Contains(o, "interrupted"):
		res = "timeout"
	}
	return solveResult{result: res, solver: sp.name, ms: ms, out: o}
}

// solve discharges one obligation: z3-new first; on no answer race old z3 and cvc5.
func (u *Unit) solve(ob *Obligation, tier string) {
	t1, t2 := 8*time.Second, 15*time.Second
	if tier == "thorough" {
		t1, t2 = 30*time.Second, 60*time.Second
	}
	q := u.query(ob, false, false)
	if ob.Short {
		r := runSolver(z3em, q, 3*time.Second)
		if r.result != "unsat" {
			r = runSolver(z3new, u.queryV(ob, false, true, true), 4*time.Second)
		}
		ob.Result, ob.Solver, ob.Ms, ob.Model = r.result, r.solver, r.ms, r.out
		return
	}
	if ob.Canary {
		// vacuity canary: only an `unsat` answer is alarming; do not spend time looking for a model
		r := runSolver(z3em, q, 3*time.Second)
		if r.result != "unsat" {
			r = runSolver(z3new, u.queryV(ob, false, false, true), 3*time.Second)
		}
		ob.Result, ob.Solver, ob.Ms = r.result, r.solver, r.ms
		return
	}
	// pure E-matching first: answers in milliseconds when the triggers fit, "unknown" otherwise
	r := runSolver(z3em, q, 4*time.Second)
	total := r.ms
	if r.result != "unsat" {
		// full z3 on the variant without the access-function axiom: finds proofs by MBQI and, for
		// failing obligations, models
		r2 := runSolver(z3new, u.queryV(ob, false, false, true), t1)
		total += r2.ms
		r = r2
	}
	if r.result != "unsat" && r.result != "sat" {
		// race the others; z3 without E-matching (pure model-based instantiation) finds models of failing
		// obligations in quantified contexts where the default configuration keeps instantiating
		var wg sync.WaitGroup
		// ... and pure E-matching once more with the long budget: on a loaded machine the two seconds of the first
		// attempt are not enough for the larger units, and some proofs are found by no other configuration
		rs := make([]solveResult, 4)
		wg.Add(4)
		go func() { defer wg.Done(); rs[0] = runSolver(z3old, q, t2) }()
		go func() { defer wg.Done(); rs[1] = runSolver(cvc5, u.query(ob, true, false), t2) }()
		go func() { defer wg.Done(); rs[2] = runSolver(z3mb, q, t2) }()
		go func() { defer wg.Done(); rs[3] = runSolver(z3em, q, t2) }()
		wg.Wait()
		for _, x := range rs {
			if x.ms > 0 {
				total += x.ms
			}
			if x.result == "unsat" || x.result == "sat" {
				if r.result != "unsat" && r.result != "sat" {
					r = x
				}
			}
		}
	}
	ob.Result, ob.Solver, ob.Ms = r.result, r.solver, total
	if r.result == "sat" {
		// fetch a model with values of the unit's inputs
		mq := u.queryV(ob, false, true, true)
		mr := runSolver(z3new, mq, t1)
		if mr.result != "sat" && r.solver == z3mb.name {
			mr = runSolver(z3mb, u.query(ob, false, true), t1)
		}
		if mr.result == "sat" {
			ob.Model = mr.out
		} else {
			ob.Model = r.out
		}
	} else if r.result != "unsat" {
		ob.Model = r.out
	}
}

// crossCheck re-runs a discharged obligation on the other solvers (thorough tier).
func (u *Unit) crossCheck(ob *Obligation) map[string]string {
	res := map[string]string{}
	q := u.query(ob, false, false)
	var wg sync.WaitGroup
	var mu sync.Mutex
	for _, sp := range []solverSpec{z3old, cvc5} {
		sp := sp
		wg.Add(1)
		go func() {
			defer wg.Done()
			qq := q
			if sp.cvc {
				qq = u.query(ob, true, false)
			}
			r := runSolver(sp, qq, 20*time.Second)
			mu.Lock()
			res[sp.name] = r.result
			mu.Unlock()
		}()
	}
	wg.Wait()
	return res
}

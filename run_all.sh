#!/bin/bash
# Regenerates every claimed check's evidence on the current tree (quick tier) and validates it.
# Exits non-zero - loudly - if any check does not exit 0 on the tree as it stands.
cd /verif
rc=0
for p in $(python3 -c "import json;print(' '.join(c['property_id'] for c in json.load(open('/verif/MANIFEST.json'))['checks']))"); do
  out=$(timeout 900 /verif/bin/govc check --property $p "$@"); e=$?
  echo "$out" | tail -1
  if echo "$out" | grep -qE "^STALE|^UNDECIDED|undecided=[1-9]"; then rc=1; echo "!!! check $p: stale or undecided obligations on the tree as it stands"; echo "$out" | grep -E "^STALE|^UNDECIDED" | head -3 | cut -c1-200; fi
  if echo "$out" | grep -q "known finding not reproduced"; then rc=1; echo "!!! check $p: a known finding is no longer reproduced"; echo "$out" | grep "known finding not reproduced"; fi
  if [ $e -ne 0 ]; then rc=1; echo "!!! check $p exited $e on the current tree"; echo "$out" | grep -E "VIOLATION|failed obligation" | head -5; fi
done
python3-vt /verif/tools_validate.py || rc=1
rm -rf /tmp/govc-ev.* 2>/dev/null
[ $rc -ne 0 ] && echo "!!! run_all: NOT CLEAN"
exit $rc

#!/bin/bash
# Regenerates every claimed check's evidence on the current tree (quick tier) and validates it.
cd /verif
rc=0
for p in $(python3 -c "import json;print(' '.join(c['property_id'] for c in json.load(open('/verif/MANIFEST.json'))['checks']))"); do
  timeout 900 /verif/bin/govc check --property $p "$@" | tail -1 || rc=1
done
python3-vt /verif/tools_validate.py || rc=1
rm -rf /tmp/govc-ev.* 2>/dev/null
exit $rc

#!/usr/bin/env python3
import json, sys, glob
import jsonschema
m = json.load(open('/verif/MANIFEST.json'))
jsonschema.validate(m, json.load(open('/root/.vp/MANIFEST.schema.json')))
es = json.load(open('/root/.vp/EVIDENCE.schema.json'))
for c in m['checks']:
    jsonschema.validate(json.load(open(c['evidence_file'])), es)
    ev = json.load(open(c['evidence_file']))
    cov = ev['coverage']
    assert cov['obligations'] == cov['discharged'] or ev.get('violations'), (c['property_id'], cov['obligations'], cov['discharged'])
print('manifest+evidence valid:', [c['property_id'] for c in m['checks']])
